//! `nalgebra::SVector<T, N>` and `nalgebra::SMatrix<T, R, C>`: statically sized, column-major,
//! `repr(C)` wrappers of arrays exactly like the real `ArrayStorage`-backed types, with the traits
//! the generated derives need (Debug, Copy, Clone, PartialEq, bytemuck::Pod/Zeroable, serde).
#[repr(C)]
#[derive(Debug, Copy, Clone, PartialEq)]
pub struct SMatrix<T, const R: usize, const C: usize>(pub [[T; R]; C]);
pub type SVector<T, const N: usize> = SMatrix<T, N, 1>;

unsafe impl<T: bytemuck::Zeroable, const R: usize, const C: usize> bytemuck::Zeroable for SMatrix<T, R, C> {}
unsafe impl<T: bytemuck::Pod, const R: usize, const C: usize> bytemuck::Pod for SMatrix<T, R, C> {}

impl<T: serde::Serialize, const R: usize, const C: usize> serde::Serialize for SMatrix<T, R, C> {
    fn serialize<S: serde::Serializer>(&self, s: S) -> Result<S::Ok, S::Error> {
        use serde::ser::SerializeSeq;
        let mut seq = s.serialize_seq(Some(R * C))?;
        for c in &self.0 {
            for e in c {
                seq.serialize_element(e)?;
            }
        }
        seq.end()
    }
}
impl<'de, T: serde::Deserialize<'de> + Copy + Default, const R: usize, const C: usize> serde::Deserialize<'de> for SMatrix<T, R, C> {
    fn deserialize<D: serde::Deserializer<'de>>(d: D) -> Result<Self, D::Error> {
        let v: Vec<T> = Vec::deserialize(d)?;
        let mut m = [[T::default(); R]; C];
        for (i, e) in v.into_iter().take(R * C).enumerate() {
            m[i / R][i % R] = e;
        }
        Ok(SMatrix(m))
    }
}
