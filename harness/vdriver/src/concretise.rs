//! Abstract shader record -> concrete WGSL text accepted by naga's front end and validator.
use crate::model::*;
use std::fmt::Write;

pub fn ty_wgsl(t: &Ty) -> String {
    match t {
        Ty::Scalar { s } => s.clone(),
        Ty::Vec { n, s } => format!("vec{n}<{s}>"),
        Ty::Mat { c, r, s } => format!("mat{c}x{r}<{s}>"),
        Ty::Atomic { s } => format!("atomic<{s}>"),
        Ty::Array { e, len: Some(l), .. } => format!("array<{}, {l}>", ty_wgsl(e)),
        Ty::Array { n, e, .. } => format!("array<{}, {n}>", ty_wgsl(e)),
        Ty::Rtarray { e } => format!("array<{}>", ty_wgsl(e)),
        Ty::Struct { name } => name.clone(),
        Ty::Sampler { cmp } => if *cmp { "sampler_comparison" } else { "sampler" }.to_string(),
        Ty::Tex {
            class,
            dim,
            kind,
            multi,
            format,
            access,
        } => match class.as_str() {
            "sampled" => {
                if *multi {
                    format!("texture_multisampled_2d<{kind}>")
                } else {
                    format!("texture_{dim}<{kind}>")
                }
            }
            "depth" => {
                if *multi {
                    "texture_depth_multisampled_2d".to_string()
                } else {
                    format!("texture_depth_{dim}")
                }
            }
            _ => format!("texture_storage_{dim}<{format}, {access}>"),
        },
    }
}

/// the spelling of a member / variable type: sub-terms that have an alias are spelled with it
pub fn ty_wgsl_aliased(s: &Shader, t: &Ty) -> String {
    if let Some(a) = s.aliases.iter().find(|a| &a.ty == t) {
        return a.name.clone();
    }
    match t {
        Ty::Array { e, len: Some(l), .. } => format!("array<{}, {l}>", ty_wgsl_aliased(s, e)),
        Ty::Array { n, e, .. } => format!("array<{}, {n}>", ty_wgsl_aliased(s, e)),
        Ty::Rtarray { e } => format!("array<{}>", ty_wgsl_aliased(s, e)),
        _ => ty_wgsl(t),
    }
}

fn find_struct<'a>(s: &'a Shader, name: &str) -> Option<&'a StructDef> {
    s.structs.iter().find(|d| d.name == name)
}

/// Path to a loadable/storable leaf (scalar, vector, matrix or atomic) inside a value of type `t`.
fn leaf(s: &Shader, t: &Ty, path: String) -> (String, Ty) {
    match t {
        Ty::Array { e, .. } | Ty::Rtarray { e } => leaf(s, e, format!("{path}[0]")),
        Ty::Struct { name } => {
            let d = find_struct(s, name).expect("struct");
            let m = &d.members[0];
            leaf(s, &m.ty, format!("{path}.{}", m.name))
        }
        other => (path, other.clone()),
    }
}

/// Path to the runtime-sized array inside a global of type `t`, if any.
fn rt_path(s: &Shader, t: &Ty, path: String) -> Option<String> {
    match t {
        Ty::Rtarray { .. } => Some(path),
        Ty::Struct { name } => {
            let d = find_struct(s, name)?;
            let m = d.members.last()?;
            match &m.ty {
                Ty::Rtarray { .. } => Some(format!("{path}.{}", m.name)),
                _ => None,
            }
        }
        _ => None,
    }
}

fn one(s: &str) -> &'static str {
    match s {
        "u32" => "1u",
        "i32" => "1i",
        "u64" => "1lu",
        "i64" => "1li",
        "f32" => "1.0f",
        _ => "1",
    }
}

fn format_channel(format: &str) -> &'static str {
    if format.ends_with("uint") {
        "u32"
    } else if format.ends_with("sint") {
        "i32"
    } else {
        "f32"
    }
}

fn coords_i(dim: &str) -> &'static str {
    match dim {
        "1d" => "0",
        "2d" => "vec2(0, 0)",
        "2d_array" => "vec2(0, 0), 0",
        "3d" => "vec3(0, 0, 0)",
        _ => "vec2(0, 0)",
    }
}

fn coords_f(dim: &str) -> &'static str {
    match dim {
        "2d" => "vec2(0.0)",
        "2d_array" => "vec2(0.0), 0",
        "3d" | "cube" => "vec3(0.0)",
        "cube_array" => "vec3(0.0), 0",
        _ => "vec2(0.0)",
    }
}

pub fn access_stmt(s: &Shader, g: &Global, how: &str, with: Option<&str>) -> String {
    let n = &g.name;
    match &g.ty {
        Ty::Sampler { cmp } => {
            let t = with.expect("sampler access needs a companion texture");
            let tg = s.globals.iter().find(|x| x.name == t).expect("companion");
            let dim = match &tg.ty {
                Ty::Tex { dim, .. } => dim.as_str(),
                _ => "2d",
            };
            if *cmp {
                format!("_ = textureSampleCompareLevel({t}, {n}, {}, 0.5);", coords_f(dim))
            } else {
                format!("_ = textureSampleLevel({t}, {n}, {}, 0.0);", coords_f(dim))
            }
        }
        Ty::Tex {
            class,
            dim,
            multi,
            format,
            ..
        } => match how {
            "tex_dims" => format!("_ = textureDimensions({n});"),
            "tex_store" => format!(
                "textureStore({n}, {}, vec4<{}>());",
                coords_i(dim),
                format_channel(format)
            ),
            "tex_atomic" => {
                let v = match format_channel(format) {
                    "i32" => "1i",
                    _ if format == "r64uint" => "1lu",
                    _ => "1u",
                };
                format!("textureAtomicMax({n}, {}, {v});", coords_i(dim))
            }
            _ => {
                // tex_load
                if class == "storage" {
                    format!("_ = textureLoad({n}, {});", coords_i(dim))
                } else if *multi {
                    format!("_ = textureLoad({n}, vec2(0, 0), 0);")
                } else if dim.starts_with("cube") {
                    format!("_ = textureDimensions({n});")
                } else {
                    format!("_ = textureLoad({n}, {}, 0);", coords_i(dim))
                }
            }
        },
        t => {
            let (p, l) = leaf(s, t, n.clone());
            match (how, &l) {
                ("array_length", _) => {
                    let rp = rt_path(s, t, n.clone()).expect("no runtime array");
                    format!("_ = arrayLength(&{rp});")
                }
                // the variable is named (its address taken) but neither read nor written: still a static use
                ("addr", _) => format!("{{ let p_addr = &{n}; }}"),
                ("load", Ty::Atomic { .. }) => format!("_ = atomicLoad(&{p});"),
                ("store", Ty::Atomic { s: sc }) => format!("atomicStore(&{p}, {});", one(sc)),
                ("atomic", Ty::Atomic { s: sc }) => format!("_ = atomicAdd(&{p}, {});", one(sc)),
                ("store", l) => format!("{p} = {}();", ty_wgsl(l)),
                (_, _) => format!("_ = {p};"),
            }
        }
    }
}

struct Ctx<'a> {
    s: &'a Shader,
    tmp: u32,
}

fn emit_nodes(cx: &mut Ctx, out: &mut String, nodes: &[Node], ind: usize) {
    let pad = "    ".repeat(ind);
    for n in nodes {
        match n {
            Node::Ovr { o } => {
                let _ = writeln!(out, "{pad}_ = {o};");
            }
            Node::Access { g, how, .. } if how == "addr" => {
                cx.tmp += 1;
                let _ = writeln!(out, "{pad}let p_addr{} = &{g};", cx.tmp);
            }
            Node::Access { g, how, with } => {
                let gl = cx
                    .s
                    .globals
                    .iter()
                    .find(|x| &x.name == g)
                    .unwrap_or_else(|| panic!("unknown global {g}"));
                let _ = writeln!(out, "{pad}{}", access_stmt(cx.s, gl, how, with.as_deref()));
            }
            Node::Call { f, expr, dag } => {
                let fd = cx
                    .s
                    .functions
                    .iter()
                    .find(|x| &x.name == f)
                    .unwrap_or_else(|| panic!("unknown function {f}"));
                let arg = if fd.ptr {
                    cx.tmp += 1;
                    let t = cx.tmp;
                    match &fd.ptr_struct {
                        Some(st) => {
                            let _ = writeln!(out, "{pad}var q{t}: {st};");
                        }
                        None => {
                            let _ = writeln!(out, "{pad}var q{t} = 1u;");
                        }
                    }
                    format!("&q{t}")
                } else if fd.param {
                    cx.tmp += 1;
                    let t = cx.tmp;
                    let _ = writeln!(out, "{pad}var a{t}_0 = 1u;");
                    for i in 1..=*dag {
                        let _ = writeln!(out, "{pad}let a{t}_{i} = a{t}_{} * a{t}_{};", i - 1, i - 1);
                    }
                    format!("a{t}_{dag}")
                } else {
                    String::new()
                };
                if fd.ret {
                    cx.tmp += 1;
                    if *expr {
                        let _ = writeln!(out, "{pad}let t{} = {f}({arg}) + 1u;", cx.tmp);
                    } else {
                        let _ = writeln!(out, "{pad}let t{} = {f}({arg});", cx.tmp);
                    }
                } else {
                    let _ = writeln!(out, "{pad}{f}({arg});");
                }
            }
            Node::Block { ctx, items } => {
                let mut inner = String::new();
                emit_nodes(cx, &mut inner, items, ind + 1);
                let ipad = "    ".repeat(ind + 1);
                match ctx.as_str() {
                    "if_chain" | "if_chain_long" => {
                        // one `if` followed by 30 (160) `else if` links; the statements sit in the final `else`
                        let mut t = format!("{pad}if (false) {{\n{pad}}}");
                        for k in 0..(if ctx == "if_chain" { 30 } else { 160 }) {
                            t.push_str(&format!(" else if ({k}u == 77u) {{\n{pad}}}"));
                        }
                        t.push_str(&format!(" else {{\n{inner}{pad}}}\n"));
                        out.push_str(&t);
                    }
                    "if_both" => {
                        let mut inner2 = String::new();
                        emit_nodes(cx, &mut inner2, items, ind + 1);
                        let _ = write!(out, "{pad}if (true) {{\n{inner}{pad}}} else {{\n{inner2}{pad}}}\n");
                    }
                    "if_accept" => {
                        let _ = write!(out, "{pad}if (true) {{\n{inner}{pad}}}\n");
                    }
                    "if_reject" => {
                        let _ = write!(out, "{pad}if (true) {{\n{pad}}} else {{\n{inner}{pad}}}\n");
                    }
                    "if_else_if" => {
                        let _ = write!(
                            out,
                            "{pad}if (false) {{\n{pad}}} else if (true) {{\n{inner}{pad}}}\n"
                        );
                    }
                    "switch_case" => {
                        let _ = write!(
                            out,
                            "{pad}switch (0) {{\n{ipad}case 1: {{\n{inner}{ipad}}}\n{ipad}default: {{\n{ipad}}}\n{pad}}}\n"
                        );
                    }
                    "switch_multi" => {
                        let _ = write!(
                            out,
                            "{pad}switch (0) {{\n{ipad}case 1, 2, 3: {{\n{inner}{ipad}}}\n{ipad}default: {{\n{ipad}}}\n{pad}}}\n"
                        );
                    }
                    "switch_after_default" => {
                        let _ = write!(
                            out,
                            "{pad}switch (0) {{\n{ipad}default: {{\n{ipad}}}\n{ipad}case 1: {{\n{inner}{ipad}}}\n{ipad}case 2: {{\n{ipad}}}\n{pad}}}\n"
                        );
                    }
                    "if_split" => {
                        // the first statement in the accept arm, the others in the reject arm
                        let mut first = String::new();
                        let mut rest = String::new();
                        emit_nodes(cx, &mut first, &items[..items.len().min(1)], ind + 1);
                        emit_nodes(cx, &mut rest, &items[items.len().min(1)..], ind + 1);
                        let _ = write!(out, "{pad}if (true) {{\n{first}{pad}}} else {{\n{rest}{pad}}}\n");
                    }
                    "switch_default" => {
                        let _ = write!(
                            out,
                            "{pad}switch (0) {{\n{ipad}case 1: {{\n{ipad}}}\n{ipad}default: {{\n{inner}{ipad}}}\n{pad}}}\n"
                        );
                    }
                    "loop_body" => {
                        let _ = write!(out, "{pad}loop {{\n{inner}{ipad}break;\n{pad}}}\n");
                    }
                    "loop_continuing" => {
                        let _ = write!(
                            out,
                            "{pad}loop {{\n{ipad}if (true) {{ break; }}\n{ipad}continuing {{\n{inner}{ipad}}}\n{pad}}}\n"
                        );
                    }
                    "for_body" => {
                        cx.tmp += 1;
                        let v = format!("i{}", cx.tmp);
                        let _ = write!(
                            out,
                            "{pad}for (var {v} = 0; {v} < 1; {v}++) {{\n{inner}{pad}}}\n"
                        );
                    }
                    "while_body" => {
                        let _ = write!(out, "{pad}while (false) {{\n{inner}{pad}}}\n");
                    }
                    _ => {
                        let _ = write!(out, "{pad}{{\n{inner}{pad}}}\n");
                    }
                }
            }
        }
    }
}

fn builtin_ty(b: &str) -> &'static str {
    match b {
        "vertex_index" | "instance_index" | "sample_index" | "sample_mask"
        | "local_invocation_index" => "u32",
        "position" => "vec4<f32>",
        "front_facing" => "bool",
        "frag_depth" => "f32",
        _ => "vec3<u32>",
    }
}

fn is_int(t: &Ty) -> bool {
    match t {
        Ty::Scalar { s } | Ty::Vec { s, .. } => s != "f32" && s != "f16",
        _ => false,
    }
}

fn io_attr(io: &Option<Io>, t: &Ty) -> String {
    match io {
        None => String::new(),
        Some(Io::Builtin { b }) => format!("@builtin({b}) "),
        Some(Io::Loc { n, blend }) => {
            let b = if *blend { "@second_blend_source " } else { "" };
            if is_int(t) {
                format!("@location({n}) {b}@interpolate(flat) ")
            } else {
                format!("@location({n}) {b}")
            }
        }
    }
}

pub fn concretise(s: &Shader) -> String {
    let mut out = String::new();
    if let Some(c) = &s.comment {
        let _ = writeln!(out, "/*{c}*/");
    }
    if s.globals.iter().any(|g| g.space == "push") || true {
        // no enable directives needed for naga 24
    }
    let has = |d: &str| s.decor.iter().any(|x| x == d);
    if has("diagnostic") {
        let _ = writeln!(out, "diagnostic(off, derivative_uniformity);");
    }
    if has("const_assert") {
        let _ = writeln!(out, "const_assert 1u + 1u == 2u;");
    }
    for a in &s.aliases {
        let _ = writeln!(out, "alias {} = {};", a.name, ty_wgsl(&a.ty));
    }
    for d in &s.structs {
        let _ = writeln!(out, "struct {} {{", d.name);
        // interpolation attributes only where no vertex entry takes the struct (vertex inputs carry none)
        let vertex_input = s.entries.iter().any(|e| e.stage == "vertex" && e.params.iter().any(|p| matches!(p, Param::Struct { ty, .. } if ty == &d.name)));
        for (mi, m) in d.members.iter().enumerate() {
            let mut attrs = io_attr(&m.io, &m.ty);
            if has("invariant") && matches!(&m.io, Some(Io::Builtin { b }) if b == "position") {
                attrs.push_str("@invariant ");
            }
            if has("interpolate") && !vertex_input && matches!(&m.io, Some(Io::Loc { blend: false, .. })) && !is_int(&m.ty) && matches!(&m.ty, Ty::Scalar { .. } | Ty::Vec { .. }) {
                attrs.push_str(["@interpolate(linear) ", "@interpolate(perspective) ", "@interpolate(perspective, centroid) ", "@interpolate(flat) ", "@interpolate(linear, center) "][mi % 5]);
            }
            // sampling qualifiers are legal (and meaningless) on vertex inputs
            if has("interpolate_vin") && vertex_input && matches!(&m.io, Some(Io::Loc { blend: false, .. })) && !is_int(&m.ty) && matches!(&m.ty, Ty::Scalar { .. } | Ty::Vec { .. }) {
                attrs.push_str(["@interpolate(perspective, centroid) ", "@interpolate(linear) ", "@interpolate(linear, centroid) ", "@interpolate(perspective, center) "][mi % 4]);
            }
            if let Some(a) = m.align {
                let _ = write!(attrs, "@align({a}) ");
            }
            if let Some(z) = m.size {
                let _ = write!(attrs, "@size({z}) ");
            }
            let _ = writeln!(out, "    {attrs}{}: {},", m.name, ty_wgsl_aliased(s, &m.ty));
        }
        let _ = writeln!(out, "}}");
    }
    for c in &s.consts {
        match &c.decl {
            Some(d) => {
                let _ = writeln!(out, "const {}: {d} = {};", c.name, c.expr);
            }
            None => {
                let _ = writeln!(out, "const {} = {};", c.name, c.expr);
            }
        }
    }
    for o in &s.overrides {
        let id = o.id.map(|i| format!("@id({i}) ")).unwrap_or_default();
        // the declared type is spelled through an alias when one names it
        let ty = ty_wgsl_aliased(s, &Ty::Scalar { s: o.ty.clone() });
        match &o.default {
            Some(d) => {
                let _ = writeln!(out, "{id}override {}: {ty} = {d};", o.name);
            }
            None => {
                let _ = writeln!(out, "{id}override {}: {ty};", o.name);
            }
        }
    }
    for g in &s.globals {
        let gb = match (&g.group, &g.binding) {
            (Some(a), Some(b)) => {
                // unsuffixed literals above i32::MAX are rejected by the front end
                let sfx = |x: &String| if x.parse::<u64>().map(|v| v > i32::MAX as u64).unwrap_or(false) { "u" } else { "" };
                format!("@group({a}{}) @binding({b}{}) ", sfx(a), sfx(b))
            }
            _ => String::new(),
        };
        let sp = match g.space.as_str() {
            "uniform" => "var<uniform>",
            "storage_r" => "var<storage, read>",
            "storage_rw" => "var<storage, read_write>",
            "private" => "var<private>",
            "workgroup" => "var<workgroup>",
            "push" => "var<push_constant>",
            _ => "var",
        };
        let _ = writeln!(out, "{gb}{sp} {}: {};", g.name, ty_wgsl_aliased(s, &g.ty));
    }
    let mut cx = Ctx { s, tmp: 0 };
    for f in &s.functions {
        if let Some(st) = &f.via_struct {
            let _ = write!(out, "fn {}(v: {st}) -> {st} {{\n    return v;\n}}\n", f.name);
            continue;
        }
        let mut body = String::new();
        emit_nodes(&mut cx, &mut body, &f.body, 1);
        let pstr;
        let p = if f.ptr {
            pstr = format!("p: ptr<function, {}>", f.ptr_struct.as_deref().unwrap_or("u32"));
            pstr.as_str()
        } else if f.param {
            "p: u32"
        } else {
            ""
        };
        if f.ret {
            let _ = write!(out, "fn {}({p}) -> u32 {{\n{body}    return 0u;\n}}\n", f.name);
        } else {
            let _ = write!(out, "fn {}({p}) {{\n{body}}}\n", f.name);
        }
    }
    for e in &s.entries {
        let mut body = String::new();
        emit_nodes(&mut cx, &mut body, &e.body, 1);
        let params: Vec<String> = e
            .params
            .iter()
            .map(|p| match p {
                Param::Struct { name, ty } => format!("{name}: {ty}"),
                Param::Builtin { name, b } => format!("@builtin({b}) {name}: {}", builtin_ty(b)),
                Param::Loc { name, n, ty } => {
                    let flat = if is_int(ty) { " @interpolate(flat)" } else { "" };
                    format!("@location({n}){flat} {name}: {}", ty_wgsl(ty))
                }
            })
            .collect();
        let (res, ret) = match &e.result {
            // a vertex entry point must produce a position: default when the record leaves the result open
            None if e.stage == "vertex" => (
                " -> @builtin(position) vec4<f32>".to_string(),
                "    return vec4<f32>();\n".to_string(),
            ),
            None => (String::new(), String::new()),
            Some(ResultDef::Builtin { b }) => (
                format!(" -> @builtin({b}) {}", builtin_ty(b)),
                format!("    return {}();\n", builtin_ty(b)),
            ),
            Some(ResultDef::Loc { n, ty }) => {
                let flat = if is_int(ty) { " @interpolate(flat)" } else { "" };
                (
                    format!(" -> @location({n}){flat} {}", ty_wgsl(ty)),
                    format!("    return {}();\n", ty_wgsl(ty)),
                )
            }
            Some(ResultDef::Struct { ty }) => (format!(" -> {ty}"), format!("    return {ty}();\n")),
        };
        let attr = match e.stage.as_str() {
            "vertex" => "@vertex".to_string(),
            "fragment" => "@fragment".to_string(),
            _ => {
                let wg = if e.wg.is_empty() {
                    "1".to_string()
                } else {
                    e.wg.join(", ")
                };
                format!("@compute @workgroup_size({wg})")
            }
        };
        let _ = write!(
            out,
            "{attr}\nfn {}({}){res} {{\n{body}{ret}}}\n",
            e.name,
            params.join(", ")
        );
    }
    out
}
