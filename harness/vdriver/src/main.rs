fn main(){}
