//! vdriver: concretise abstract cases, drive the real generator with hooks on, record observations.
mod concretise;
mod model;
mod oracle;
mod project;

use model::*;
use serde_json::{json, Map, Value};
use std::io::{BufRead, BufWriter, Write};
use std::panic::{catch_unwind, AssertUnwindSafe};

/// Make a JSON value digestible by TLC's Json module: no nulls, no floats, no integers outside
/// i32, ASCII-only strings (non-ASCII is spelled `\u{..}`).
pub fn ascii_safe(s: String) -> String {
    if s.is_ascii() && !s.chars().any(|c| (c as u32) < 0x20 || c as u32 == 0x7f) {
        return s;
    }
    let mut o = String::new();
    for c in s.chars() {
        if c.is_ascii() && (c as u32) >= 0x20 && c as u32 != 0x7f {
            o.push(c)
        } else {
            o.push_str(&format!("\\u{{{:x}}}", c as u32))
        }
    }
    o
}

pub fn tlc_safe(v: Value) -> Value {
    match v {
        Value::Null => Value::String("null".into()),
        Value::Bool(b) => Value::Bool(b),
        Value::Number(n) => {
            if let Some(i) = n.as_i64() {
                if i >= i32::MIN as i64 && i <= i32::MAX as i64 {
                    return Value::Number(n);
                }
            }
            Value::String(n.to_string())
        }
        Value::String(s) => Value::String(ascii_safe(s)),
        Value::Array(a) => Value::Array(a.into_iter().map(tlc_safe).collect()),
        Value::Object(m) => Value::Object(
            m.into_iter()
                .filter(|(_, v)| !v.is_null())
                .map(|(k, v)| (ascii_safe(k), tlc_safe(v)))
                .collect(),
        ),
    }
}

fn rank_fill(s: &mut Shader) {
    use case::CaseExt;
    for d in &mut s.structs {
        d.snake = d.name.to_snake();
    }
    for e in &mut s.entries {
        e.upper = e.name.to_uppercase();
    }
    // order- and equality-preserving small-integer abstraction of @group/@binding
    let mut gs: Vec<u64> = vec![];
    let mut bs: Vec<u64> = vec![];
    for g in &s.globals {
        if let Some(x) = &g.group {
            gs.push(x.parse().unwrap_or(0));
        }
        if let Some(x) = &g.binding {
            bs.push(x.parse().unwrap_or(0));
        }
    }
    let abs = |vals: &mut Vec<u64>| {
        vals.sort();
        vals.dedup();
    };
    abs(&mut gs);
    abs(&mut bs);
    // identity below 2^20, otherwise 2^20 + rank among the large values
    let map = |vals: &Vec<u64>, x: u64| -> i64 {
        if x < (1 << 20) {
            x as i64
        } else {
            let r = vals.iter().filter(|v| **v >= (1 << 20) && **v < x).count();
            (1 << 20) + r as i64
        }
    };
    for g in &mut s.globals {
        if let Some(x) = &g.group {
            g.gr = map(&gs, x.parse().unwrap_or(0));
        }
        if let Some(x) = &g.binding {
            g.br = map(&bs, x.parse().unwrap_or(0));
        }
    }
}

fn panic_msg(e: Box<dyn std::any::Any + Send>) -> String {
    if let Some(s) = e.downcast_ref::<&str>() {
        s.to_string()
    } else if let Some(s) = e.downcast_ref::<String>() {
        s.clone()
    } else {
        "?".into()
    }
}

fn thread_cpu_micros() -> u128 {
    let mut ts = libc::timespec { tv_sec: 0, tv_nsec: 0 };
    unsafe { libc::clock_gettime(libc::CLOCK_THREAD_CPUTIME_ID, &mut ts) };
    ts.tv_sec as u128 * 1_000_000 + ts.tv_nsec as u128 / 1000
}

pub struct CallOutcome {
    pub cpu_micros: u128,
    pub ret: Value,
    pub text: Option<String>,
    pub hooks: Vec<String>,
    pub work: [u64; 4],
    pub micros: u128,
    pub renders: Value,
}

pub fn call_generator(src: &str, opts: &Opts, detail: u64, budget: u64) -> CallOutcome {
    let wo = opts.to_write_options();
    wgsl_to_wgpu::verif::start(detail, budget);
    let t0 = std::time::Instant::now();
    let c0 = thread_cpu_micros();
    let r = catch_unwind(AssertUnwindSafe(|| match &opts.include {
        Some(p) => wgsl_to_wgpu::create_shader_module(src, p, wo),
        None => wgsl_to_wgpu::create_shader_module_embedded(src, wo),
    }));
    let micros = t0.elapsed().as_micros();
    let cpu_micros = thread_cpu_micros() - c0;
    let work = wgsl_to_wgpu::verif::work_done();
    let hooks = wgsl_to_wgpu::verif::take();
    let mut renders = Value::Null;
    let (ret, text) = match r {
        Ok(Ok(text)) => (json!({"kind":"ok"}), Some(text)),
        Ok(Err(e)) => {
            use wgsl_to_wgpu::CreateModuleError as E;
            let disp = format!("{e}");
            let (name, extra) = match &e {
                E::NonConsecutiveBindGroups => ("NonConsecutiveBindGroups", json!({})),
                E::DuplicateBinding { binding } => ("DuplicateBinding", json!({"binding": binding.to_string()})),
                E::ParseError { error } => ("ParseError", json!({"msg": error.message()})),
                E::ValidationError { error } => ("ValidationError", json!({"msg": format!("{}", error.as_inner())})),
                _ => ("Other", json!({})),
            };
            // rendering the error against the same source must not panic (C17)
            // the two stderr renderers, with stderr pointed at /dev/null for the duration
            let r3 = {
                let devnull = std::fs::OpenOptions::new().write(true).open("/dev/null").ok();
                let saved = unsafe { libc::dup(2) };
                if let Some(f) = &devnull {
                    use std::os::fd::AsRawFd;
                    unsafe { libc::dup2(f.as_raw_fd(), 2) };
                }
                let r = catch_unwind(AssertUnwindSafe(|| {
                    e.emit_to_stderr(src);
                    e.emit_to_stderr_with_path(src, "shader.wgsl");
                }));
                if saved >= 0 {
                    unsafe {
                        libc::dup2(saved, 2);
                        libc::close(saved);
                    }
                }
                r
            };
            let r1 = catch_unwind(AssertUnwindSafe(|| e.emit_to_string(src)));
            let r2 = catch_unwind(AssertUnwindSafe(|| e.emit_to_string_with_path(src, "shader.wgsl")));
            let r2abs = catch_unwind(AssertUnwindSafe(|| {
                let a = e.emit_to_string_with_path(src, "/abs/does/not/exist/shader.wgsl");
                let b = e.emit_to_string_with_path(src, std::path::Path::new("/"));
                a.len() + b.len()
            }));
            renders = json!({
                "to_string": match &r1 { Ok(s) => json!({"ok": true, "len": s.len(), "text": if s.len() < 200 { s.as_str() } else { "" }}), Err(_) => json!({"ok": false}) },
                "to_string_with_path": match &r2 { Ok(s) => json!({"ok": true, "len": s.len(), "has_path": s.contains("shader.wgsl"), "text": if s.len() < 200 { s.as_str() } else { "" }}), Err(_) => json!({"ok": false}) },
                "to_stderr": json!({"ok": r3.is_ok() && r2abs.is_ok()}),
            });
            let mut m = json!({"kind":"err","err":name,"display":disp});
            if let (Some(mm), Some(ex)) = (m.as_object_mut(), extra.as_object()) {
                for (k, v) in ex {
                    mm.insert(k.clone(), v.clone());
                }
            }
            (m, None)
        }
        Err(p) => (json!({"kind":"panic","msg":panic_msg(p)}), None),
    };
    CallOutcome {
        cpu_micros,
        ret,
        text,
        hooks,
        work,
        micros,
        renders,
    }
}

static HOOK_HITS: std::sync::atomic::AtomicUsize = std::sync::atomic::AtomicUsize::new(0);

/// the process-wide panic hook belongs to the application: install a counting one, and later see whether it is still in place
fn install_counting_hook() {
    std::panic::set_hook(Box::new(|_| {
        HOOK_HITS.fetch_add(1, std::sync::atomic::Ordering::SeqCst);
    }));
}

fn counting_hook_still_installed() -> bool {
    let before = HOOK_HITS.load(std::sync::atomic::Ordering::SeqCst);
    let _ = catch_unwind(|| panic!("hook probe"));
    let ok = HOOK_HITS.load(std::sync::atomic::Ordering::SeqCst) > before;
    if !ok {
        install_counting_hook();
    }
    ok
}

fn cmd_gen(args: &[String]) {
    // vdriver gen <cases.ndjson> <trace.ndjson> [--out <dir>] [--detail N] [--budget N] [--no-project]
    let cases_path = &args[0];
    let trace_path = &args[1];
    let mut outdir: Option<String> = None;
    let mut detail = 0u64;
    let mut budget = 0u64;
    let mut keep: Option<Vec<String>> = None;
    let mut do_project = true;
    let mut keep_s = true;
    let mut i = 2;
    while i < args.len() {
        match args[i].as_str() {
            "--out" => {
                outdir = Some(args[i + 1].clone());
                i += 1
            }
            "--detail" => {
                detail = args[i + 1].parse().unwrap();
                i += 1
            }
            "--budget" => {
                budget = args[i + 1].parse().unwrap();
                i += 1
            }
            "--keep" => {
                keep = Some(args[i + 1].split(',').map(|s| s.to_string()).collect());
                i += 1
            }
            "--no-project" => do_project = false,
            "--no-s" => keep_s = false,
            _ => {}
        }
        i += 1;
    }
    if let Some(d) = &outdir {
        std::fs::create_dir_all(d).unwrap();
    }
    let input = std::io::BufReader::new(std::fs::File::open(cases_path).expect("cases file"));
    let mut out = BufWriter::new(std::fs::File::create(trace_path).expect("trace file"));
    std::panic::set_hook(Box::new(|_| {}));
    // what `WriteOptions::default()` and `ValidationOptions::default()` stand for (Generator.tla DefaultOptions)
    {
        let d = wgsl_to_wgpu::WriteOptions::default();
        let v = wgsl_to_wgpu::ValidationOptions::default();
        writeln!(out, "{}", json!({"ev": "defaults", "opts": {
            "bmv": d.derive_bytemuck_vertex, "bmh": d.derive_bytemuck_host_shareable, "enc": d.derive_encase_host_shareable, "serde": d.derive_serde,
            "mv": match d.matrix_vector_types { wgsl_to_wgpu::MatrixVectorTypes::Rust => "rust", wgsl_to_wgpu::MatrixVectorTypes::Glam => "glam", wgsl_to_wgpu::MatrixVectorTypes::Nalgebra => "nalgebra" },
            "rustfmt": d.rustfmt, "validate": if d.validate.is_some() { "some" } else { "none" }},
            "validation_default_all": v.capabilities == wgsl_to_wgpu::WgslCapabilities::all()})).unwrap();
    }
    let mut n = 0u64;
    let mut reuse_buf = String::with_capacity(8 << 20);
    for line in input.lines() {
        let line = line.unwrap();
        if line.trim().is_empty() {
            continue;
        }
        let mut case: Case = match serde_json::from_str(&line) {
            Ok(c) => c,
            Err(e) => {
                eprintln!("bad case line: {e}: {}", &line[..line.len().min(200)]);
                std::process::exit(2);
            }
        };
        if let Some(s) = case.s.as_mut() {
            rank_fill(s);
        }
        let src = match (&case.wgsl, &case.s) {
            (Some(w), _) => w.clone(),
            (None, Some(s)) => {
                match catch_unwind(AssertUnwindSafe(|| concretise::concretise(s))) {
                    Ok(t) => t,
                    Err(p) => {
                        eprintln!("concretiser failed on case {}: {}", case.id, panic_msg(p));
                        std::process::exit(2);
                    }
                }
            }
            _ => {
                eprintln!("case {} has neither S nor wgsl", case.id);
                std::process::exit(2);
            }
        };
        let orc = match catch_unwind(AssertUnwindSafe(|| oracle::run(&src, &case.opts.validate))) {
            Ok(o) => o,
            Err(p) => oracle::Oracle {
                json: json!({"parse": {"ok": false, "msg": format!("oracle panicked: {}", panic_msg(p))}, "oracle_panic": true}),
                module: None,
            },
        };
        let mut ev = Map::new();
        ev.insert("ev".into(), json!("case"));
        ev.insert("id".into(), json!(case.id));
        ev.insert("family".into(), json!(case.family));
        ev.insert("has_s".into(), json!(case.s.is_some() && keep_s));
        if keep_s {
            if let Some(s) = &case.s {
                ev.insert("S".into(), serde_json::to_value(s).unwrap());
            }
        }
        ev.insert("opts".into(), serde_json::to_value(&case.opts).unwrap());
        ev.insert("src_sha".into(), json!(project::hash_bytes(src.as_bytes())));
        ev.insert("src_len".into(), json!(src.len()));
        if let Some(p) = &case.fmt_plan {
            ev.insert("fmt_plan".into(), json!(p));
            ev.insert("fmt_late".into(), json!(case.fmt_late));
            ev.insert("size_class".into(), json!(case.size_class.clone().unwrap_or_else(|| "small".into())));
        }
        writeln!(out, "{}", tlc_safe(Value::Object(ev))).unwrap();

        // work budget: well above the quadratic bound judged by C20, so that exceeding it is decisive
        let budget = if budget > 0 {
            budget
        } else {
            let ir = &orc.json["ir"];
            let n = ir["nodes"].as_u64().unwrap_or(0) + ir["types"].as_u64().unwrap_or(0) + ir["globals"].as_u64().unwrap_or(0) + 8;
            4 * n * n + 10_000
        };
        // formatter fault plan (C19): stub first on PATH, or no formatter at all
        let orig_path = std::env::var("PATH").unwrap_or_default();
        if let Some(plan) = &case.fmt_plan {
            let stubs = std::env::var("VERIF_STUB_DIR").expect("VERIF_STUB_DIR");
            if plan == "absent" {
                std::env::set_var("PATH", std::env::var("VERIF_EMPTY_DIR").expect("VERIF_EMPTY_DIR"));
            } else if plan == "noexec" || plan == "isdir" {
                // a `rustfmt` that exists but cannot be started: a file without the execute bit / a directory of that name
                std::env::set_var("PATH", format!("{}/{plan}", std::env::var("VERIF_EMPTY_DIR").expect("VERIF_EMPTY_DIR")));
            } else {
                std::env::set_var("PATH", format!("{stubs}:{orig_path}"));
                std::env::set_var("VERIF_FMT_PLAN", plan);
            }
            if case.fmt_late {
                wgsl_to_wgpu::verif::set_sync(Some(Box::new(|point: &str| {
                    if point == "fmt.spawned" {
                        std::thread::sleep(std::time::Duration::from_millis(150));
                    }
                })));
            }
        }
        // per-call environment (restored afterwards)
        let mut saved_env: Vec<(String, Option<String>)> = vec![];
        if let Some(envs) = &case.env {
            for (k, v) in envs {
                saved_env.push((k.clone(), std::env::var(k).ok()));
                match v {
                    Some(v) => std::env::set_var(k, v),
                    None => std::env::remove_var(k),
                }
            }
        }
        let sigchld_ignored = case.fmt_plan.as_deref() == Some("ok_sigchld_ignored");
        if sigchld_ignored {
            // the calling process ignores SIGCHLD: its children are reaped by the kernel and `wait` fails with ECHILD
            unsafe { libc::signal(libc::SIGCHLD, libc::SIG_IGN) };
        }
        reuse_buf.clear();
        reuse_buf.push_str(&src);
        let env_before: Vec<(std::ffi::OsString, std::ffi::OsString)> = std::env::vars_os().collect();
        let oc = call_generator(&reuse_buf, &case.opts, detail, budget);
        let env_after: Vec<(std::ffi::OsString, std::ffi::OsString)> = std::env::vars_os().collect();
        let env_changed: Vec<String> = env_before
            .iter()
            .filter(|kv| !env_after.contains(kv))
            .chain(env_after.iter().filter(|kv| !env_before.contains(kv)))
            .map(|(k, _)| k.to_string_lossy().to_string())
            .collect();
        if sigchld_ignored {
            unsafe { libc::signal(libc::SIGCHLD, libc::SIG_DFL) };
        }
        for (k, v) in saved_env {
            match v {
                Some(v) => std::env::set_var(&k, v),
                None => std::env::remove_var(&k),
            }
        }
        if case.fmt_plan.is_some() {
            std::env::set_var("PATH", &orig_path);
            wgsl_to_wgpu::verif::set_sync(None);
        }
        // a formatter process that was spawned must have been reaped when the call returns (Format.tla: the parent waits in every branch)
        let mut zombie = false;
        if case.opts.rustfmt {
            let mut status: libc::c_int = 0;
            let r = unsafe { libc::waitpid(-1, &mut status, libc::WNOHANG) };
            // r > 0: an unreaped child existed; r == 0: a child is still running; -1 (ECHILD): no children at all
            zombie = r >= 0;
            if r == 0 {
                // give a still-running orphan the chance to end, then collect it so that later calls are not blamed
                std::thread::sleep(std::time::Duration::from_millis(50));
                unsafe { libc::waitpid(-1, &mut status, libc::WNOHANG) };
            }
        }
        for h in &oc.hooks {
            // hook lines are already JSON; pass through the sanitiser
            match serde_json::from_str::<Value>(h) {
                Ok(v) => writeln!(out, "{}", tlc_safe(v)).unwrap(),
                Err(_) => writeln!(out, "{}", json!({"ev":"hook.bad","raw":h})).unwrap(),
            }
        }
        let mut obs = Map::new();
        obs.insert("ev".into(), json!("obs"));
        obs.insert("id".into(), json!(case.id));
        if zombie {
            obs.insert("zombie".into(), json!(true));
        }
        if !env_changed.is_empty() {
            obs.insert("env_changed".into(), json!(env_changed));
        }
        obs.insert("ret".into(), oc.ret.clone());
        obs.insert("work".into(), json!(oc.work.to_vec()));
        obs.insert("micros".into(), json!(oc.micros as u64));
        obs.insert("cpu_micros".into(), json!(oc.cpu_micros as u64));
        obs.insert("oracle".into(), orc.json.clone());
        if !oc.renders.is_null() {
            obs.insert("renders".into(), oc.renders.clone());
        }
        if case.opts.rustfmt {
            // reference: the same call with the formatter off
            let mut o2 = case.opts.clone();
            o2.rustfmt = false;
            let r = call_generator(&src, &o2, 0, budget);
            if let Some(t) = &r.text {
                obs.insert("ref_tokens_sha".into(), json!(project::tokens_sha(t).unwrap_or_else(|| "unparsable".into())));
                obs.insert("ref_len".into(), json!(t.len()));
            }
        }
        if let Some(text) = &oc.text {
            obs.insert("text_sha".into(), json!(project::hash_bytes(text.as_bytes())));
            obs.insert("text_len".into(), json!(text.len()));
            match project::tokens_sha(text) {
                Some(t) => {
                    obs.insert("tokens_sha".into(), json!(t));
                }
                None => {
                    obs.insert("tokens_sha".into(), json!("unparsable"));
                }
            }
            if do_project {
                match project::project(text, &src) {
                    Ok(mut p) => {
                        if let Some(d) = &outdir {
                            // raw (unsanitised, unfiltered) projection for the probe generators
                            std::fs::write(format!("{d}/{}.out.json", case.id), p.to_string()).unwrap();
                        }
                        if let (Some(k), Some(m)) = (&keep, p.as_object_mut()) {
                            m.retain(|key, _| k.iter().any(|x| x == key));
                        }
                        obs.insert("out".into(), p);
                        obs.insert("parsed".into(), json!(true));
                    }
                    Err(e) => {
                        obs.insert("parsed".into(), json!(false));
                        obs.insert("parse_err".into(), json!(e));
                    }
                }
            }
            // repeat calls (C18, in-process determinism)
            let mut same = true;
            for _ in 0..case.repeat {
                let again = call_generator(&src, &case.opts, 0, budget);
                if again.text.as_deref() != Some(text.as_str()) {
                    same = false;
                }
            }
            if case.repeat > 0 {
                obs.insert("repeat_same".into(), json!(same));
            }
            if let Some(d) = &outdir {
                std::fs::write(format!("{d}/{}.rs", case.id), text).unwrap();
            }
        }
        if let Some(d) = &outdir {
            std::fs::write(format!("{d}/{}.wgsl", case.id), &src).unwrap();
        }
        writeln!(out, "{}", tlc_safe(Value::Object(obs))).unwrap();
        n += 1;
    }
    out.flush().unwrap();
    eprintln!("vdriver gen: {n} cases");
}

/// One observation record for a finished call (no projection; C18 compares results only).
fn obs_min(id: &str, oc: &CallOutcome) -> Value {
    let mut obs = Map::new();
    obs.insert("ev".into(), json!("obs"));
    obs.insert("id".into(), json!(id));
    obs.insert("ret".into(), oc.ret.clone());
    obs.insert("work".into(), json!(oc.work.to_vec()));
    obs.insert("micros".into(), json!(oc.micros as u64));
    obs.insert("oracle".into(), json!({"parse": {"ok": true}}));
    if let Some(text) = &oc.text {
        obs.insert("text_sha".into(), json!(project::hash_bytes(text.as_bytes())));
        obs.insert("text_len".into(), json!(text.len()));
    }
    Value::Object(obs)
}

fn case_src(case: &Case) -> String {
    match (&case.wgsl, &case.s) {
        (Some(w), _) => w.clone(),
        (None, Some(s)) => concretise::concretise(s),
        _ => String::new(),
    }
}

fn case_event(case: &Case, id: &str, src: &str, mode: &str) -> Value {
    json!({"ev": "case", "id": id, "family": format!("{}-{}", case.family, mode), "has_s": false,
           "opts": serde_json::to_value(&case.opts).unwrap(),
           "src_sha": project::hash_bytes(src.as_bytes()), "src_len": src.len()})
}

/// vdriver sched <groups.ndjson> <trace.ndjson>
/// each line: {"id":..., "cases":[case, case, ...], "schedule":[1,2,1,...]}  (thread numbers from 1;
/// an empty schedule = free-running threads). Threads stop at every hook sync point and continue only
/// when the schedule hands them the turn, so the recorded interleaving is the exported one.
fn cmd_sched(args: &[String]) {
    use std::sync::{Arc, Condvar, Mutex};
    #[derive(serde::Deserialize)]
    struct Group {
        id: String,
        cases: Vec<Case>,
        #[serde(default)]
        schedule: Vec<usize>,
        /// barrier mode: every thread runs `rounds` calls and all threads leave the named sync point of each round together (true parallelism
        /// inside the phase that follows it)
        #[serde(default)]
        barrier: Option<String>,
        #[serde(default)]
        rounds: usize,
    }
    struct SpinBarrier {
        n: usize,
        count: std::sync::atomic::AtomicUsize,
        generation: std::sync::atomic::AtomicUsize,
    }
    impl SpinBarrier {
        fn wait(&self) {
            use std::sync::atomic::Ordering::*;
            let g = self.generation.load(Acquire);
            if self.count.fetch_add(1, AcqRel) + 1 >= self.n {
                self.count.store(0, Release);
                self.generation.fetch_add(1, Release);
            } else {
                let t0 = std::time::Instant::now();
                while self.generation.load(Acquire) == g {
                    std::hint::spin_loop();
                    if t0.elapsed() > std::time::Duration::from_secs(3) {
                        break;
                    }
                }
            }
        }
    }
    struct Turn {
        pos: usize,
        done: Vec<bool>,
        order: Vec<usize>,
    }
    let input = std::io::BufReader::new(std::fs::File::open(&args[0]).expect("groups file"));
    let mut out = BufWriter::new(std::fs::File::create(&args[1]).expect("trace file"));
    install_counting_hook();
    for line in input.lines() {
        let line = line.unwrap();
        if line.trim().is_empty() {
            continue;
        }
        let g: Group = serde_json::from_str(&line).expect("group");
        let n = g.cases.len();
        if let Some(bp) = g.barrier.clone() {
            let rounds = g.rounds.max(1);
            let bar = Arc::new(SpinBarrier { n, count: Default::default(), generation: Default::default() });
            let mut handles = vec![];
            for case in g.cases.iter().cloned() {
                let bar = bar.clone();
                let bp = bp.clone();
                handles.push(std::thread::spawn(move || {
                    let src = case_src(&case);
                    let mut res = vec![];
                    for _ in 0..rounds {
                        let (b2, p2) = (bar.clone(), bp.clone());
                        wgsl_to_wgpu::verif::set_sync(Some(Box::new(move |point: &str| {
                            if point == p2 {
                                b2.wait();
                            }
                        })));
                        let oc = call_generator(&src, &case.opts, 0, 50_000_000);
                        wgsl_to_wgpu::verif::set_sync(None);
                        res.push(oc);
                    }
                    (case, src, res)
                }));
            }
            for (ti, h) in handles.into_iter().enumerate() {
                let (case, src, res) = h.join().expect("thread");
                for (r, oc) in res.iter().enumerate() {
                    let id = format!("{}-t{}-r{}", g.id, ti + 1, r);
                    writeln!(out, "{}", tlc_safe(case_event(&case, &id, &src, "barrier"))).unwrap();
                    writeln!(out, "{}", tlc_safe(obs_min(&id, oc))).unwrap();
                }
            }
            if !counting_hook_still_installed() {
                writeln!(out, "{}", json!({"ev": "envstate", "id": g.id, "ok": false, "what": "the panic hook of the process was replaced while the calls ran"})).unwrap();
            }
            continue;
        }
        let sched = Arc::new(g.schedule.clone());
        let state = Arc::new((Mutex::new(Turn { pos: 0, done: vec![false; n + 1], order: vec![] }), Condvar::new()));
        let mut handles = vec![];
        for (ti, case) in g.cases.iter().cloned().enumerate() {
            let t = ti + 1;
            let sched = sched.clone();
            let state = state.clone();
            handles.push(std::thread::spawn(move || {
                let src = case_src(&case);
                // wait until the schedule gives this thread the turn (skipping turns of finished threads)
                let wait_turn = {
                    let sched = sched.clone();
                    let state = state.clone();
                    move || {
                        if sched.is_empty() {
                            return;
                        }
                        let (m, cv) = &*state;
                        let mut st = m.lock().unwrap();
                        loop {
                            while st.pos < sched.len() && st.done[sched[st.pos]] {
                                st.pos += 1;
                                cv.notify_all();
                            }
                            if st.pos >= sched.len() || sched[st.pos] == t {
                                return;
                            }
                            st = cv.wait_timeout(st, std::time::Duration::from_secs(20)).unwrap().0;
                        }
                    }
                };
                let pass_turn = {
                    let sched = sched.clone();
                    let state = state.clone();
                    move || {
                        if sched.is_empty() {
                            return;
                        }
                        let (m, cv) = &*state;
                        let mut st = m.lock().unwrap();
                        if st.pos < sched.len() && sched[st.pos] == t {
                            st.pos += 1;
                            st.order.push(t);
                        }
                        cv.notify_all();
                    }
                };
                wait_turn();
                let (w2, p2) = (wait_turn.clone(), pass_turn.clone());
                wgsl_to_wgpu::verif::set_sync(Some(Box::new(move |point: &str| {
                    if point.starts_with("fmt.") {
                        return;
                    }
                    p2();
                    w2();
                })));
                let oc = call_generator(&src, &case.opts, 0, 50_000_000);
                wgsl_to_wgpu::verif::set_sync(None);
                {
                    let (m, cv) = &*state;
                    let mut st = m.lock().unwrap();
                    if st.pos < sched.len() && sched[st.pos] == t {
                        st.pos += 1;
                        st.order.push(t);
                    }
                    st.done[t] = true;
                    cv.notify_all();
                }
                (case, src, oc)
            }));
        }
        let mut first = true;
        for (ti, h) in handles.into_iter().enumerate() {
            let (case, src, oc) = h.join().expect("thread");
            if first && ti + 1 == n {
                first = false;
            }
            let id = format!("{}-t{}", g.id, ti + 1);
            writeln!(out, "{}", tlc_safe(case_event(&case, &id, &src, if g.schedule.is_empty() { "threads" } else { "sched" }))).unwrap();
            writeln!(out, "{}", tlc_safe(obs_min(&id, &oc))).unwrap();
        }
        if !counting_hook_still_installed() {
            writeln!(out, "{}", json!({"ev": "envstate", "id": g.id, "ok": false, "what": "the panic hook of the process was replaced while the calls ran"})).unwrap();
        }
        if !g.schedule.is_empty() {
            let order = state.0.lock().unwrap().order.clone();
            writeln!(out, "{}", json!({"ev": "sched", "id": g.id, "schedule": g.schedule, "order": order})).unwrap();
        }
    }
    out.flush().unwrap();
}

fn cmd_concretise(args: &[String]) {
    let input = std::io::BufReader::new(std::fs::File::open(&args[0]).expect("cases file"));
    for line in input.lines() {
        let line = line.unwrap();
        if line.trim().is_empty() {
            continue;
        }
        let case: Case = serde_json::from_str(&line).expect("case");
        let src = case
            .wgsl
            .clone()
            .unwrap_or_else(|| concretise::concretise(case.s.as_ref().unwrap()));
        if args.iter().any(|a| a == "--json") {
            println!("{}", json!({"id": case.id, "wgsl": src}));
        } else {
            println!("// ---- {}\n{}", case.id, src);
        }
    }
}

fn main() {
    let args: Vec<String> = std::env::args().skip(1).collect();
    if args.is_empty() {
        eprintln!("usage: vdriver <gen|concretise> ...");
        std::process::exit(2);
    }
    if std::env::var("VERIF_DELETED_CWD").is_ok() {
        // the process lives in a working directory that no longer exists (a build script whose directory was cleaned under it)
        let d = std::env::temp_dir().join(format!("vdriver-cwd-{}", std::process::id()));
        std::fs::create_dir_all(&d).expect("scratch cwd");
        std::env::set_current_dir(&d).expect("chdir");
        std::fs::remove_dir(&d).expect("rmdir");
    }
    match args[0].as_str() {
        "gen" => cmd_gen(&args[1..]),
        "concretise" => cmd_concretise(&args[1..]),
        "sched" => cmd_sched(&args[1..]),
        other => {
            eprintln!("unknown subcommand {other}");
            std::process::exit(2);
        }
    }
}
