//! The abstract shader record `S` (DESIGN §4.1) as exchanged with TLC (JSON both ways).
use serde::{Deserialize, Serialize};

#[derive(Deserialize, Serialize, Clone, Debug, PartialEq)]
#[serde(tag = "k", rename_all = "snake_case")]
pub enum Ty {
    Scalar { s: String },
    Vec { n: u8, s: String },
    Mat { c: u8, r: u8, s: String },
    Atomic { s: String },
    Array {
        n: u32,
        e: Box<Ty>,
        /// name of an `override` giving the length instead of `n` (workgroup variables only)
        #[serde(default, skip_serializing_if = "Option::is_none")]
        len: Option<String>,
    },
    Rtarray { e: Box<Ty> },
    Struct { name: String },
    Sampler { cmp: bool },
    /// class: sampled | depth | storage; dim: 1d 2d 2d_array 3d cube cube_array
    Tex {
        class: String,
        dim: String,
        #[serde(default, skip_serializing_if = "String::is_empty")]
        kind: String,
        #[serde(default)]
        multi: bool,
        #[serde(default, skip_serializing_if = "String::is_empty")]
        format: String,
        #[serde(default, skip_serializing_if = "String::is_empty")]
        access: String,
    },
}

fn is_zero(x: &u32) -> bool {
    *x == 0
}
fn is_false(x: &bool) -> bool {
    !*x
}

#[derive(Deserialize, Serialize, Clone, Debug, PartialEq)]
#[serde(tag = "k", rename_all = "snake_case")]
pub enum Io {
    Loc {
        n: u32,
        /// `@second_blend_source` (dual-source blending: a second output at the same location)
        #[serde(default, skip_serializing_if = "is_false")]
        blend: bool,
    },
    Builtin { b: String },
}

#[derive(Deserialize, Serialize, Clone, Debug)]
pub struct Member {
    pub name: String,
    pub ty: Ty,
    #[serde(default, skip_serializing_if = "Option::is_none")]
    pub io: Option<Io>,
    #[serde(default, skip_serializing_if = "Option::is_none")]
    pub align: Option<u32>,
    #[serde(default, skip_serializing_if = "Option::is_none")]
    pub size: Option<u32>,
}

#[derive(Deserialize, Serialize, Clone, Debug)]
pub struct StructDef {
    pub name: String,
    pub members: Vec<Member>,
    /// snake-case form of the name (filled in by the driver; the vertex entry helpers name their step-mode parameters like this)
    #[serde(default)]
    pub snake: String,
}

#[derive(Deserialize, Serialize, Clone, Debug)]
pub struct Global {
    pub name: String,
    /// uniform | storage_r | storage_rw | handle | private | workgroup | push
    pub space: String,
    /// decimal strings: values may exceed TLC's 32-bit integers
    #[serde(default, skip_serializing_if = "Option::is_none")]
    pub group: Option<String>,
    #[serde(default, skip_serializing_if = "Option::is_none")]
    pub binding: Option<String>,
    /// order/equality preserving small-integer abstractions of group/binding, filled in by the driver
    #[serde(default)]
    pub gr: i64,
    #[serde(default)]
    pub br: i64,
    pub ty: Ty,
}

#[derive(Deserialize, Serialize, Clone, Debug)]
#[serde(tag = "k", rename_all = "snake_case")]
pub enum Node {
    /// how: load store atomic array_length tex_load tex_sample tex_store tex_dims
    Access {
        g: String,
        how: String,
        /// companion texture for sampler accesses
        #[serde(default, skip_serializing_if = "Option::is_none")]
        with: Option<String>,
    },
    Call {
        f: String,
        /// the callee returns a value and the call sits inside an expression
        #[serde(default)]
        expr: bool,
        /// depth of the expression DAG passed as the argument (callees with a parameter only)
        #[serde(default, skip_serializing_if = "is_zero")]
        dag: u32,
    },
    /// ctx: plain if_accept if_reject switch_case switch_default loop_body loop_continuing for_body for_update while_body
    Block { ctx: String, items: Vec<Node> },
    /// a read of a pipeline-overridable constant
    Ovr { o: String },
}

#[derive(Deserialize, Serialize, Clone, Debug)]
pub struct FuncDef {
    pub name: String,
    #[serde(default)]
    pub ret: bool,
    /// takes one u32 parameter
    #[serde(default, skip_serializing_if = "is_false")]
    pub param: bool,
    /// takes one `ptr<function, u32>` parameter (instead of the value parameter)
    #[serde(default, skip_serializing_if = "is_false")]
    pub ptr: bool,
    /// the helper takes a value of this struct and returns it (`fn f(v: S) -> S { return v; }`); no other parameter, no body
    #[serde(default, skip_serializing_if = "Option::is_none")]
    pub via_struct: Option<String>,
    /// with `ptr`: the pointee is this struct (a function-local variable of that type is passed) instead of u32
    #[serde(default, skip_serializing_if = "Option::is_none")]
    pub ptr_struct: Option<String>,
    #[serde(default)]
    pub body: Vec<Node>,
}

#[derive(Deserialize, Serialize, Clone, Debug)]
#[serde(tag = "k", rename_all = "snake_case")]
pub enum Param {
    Struct { name: String, ty: String },
    Builtin { name: String, b: String },
    Loc { name: String, n: u32, ty: Ty },
}

#[derive(Deserialize, Serialize, Clone, Debug)]
#[serde(tag = "k", rename_all = "snake_case")]
pub enum ResultDef {
    Builtin { b: String },
    Loc { n: u32, ty: Ty },
    Struct { ty: String },
}

#[derive(Deserialize, Serialize, Clone, Debug)]
pub struct EntryDef {
    pub name: String,
    /// vertex | fragment | compute
    pub stage: String,
    #[serde(default)]
    pub params: Vec<Param>,
    #[serde(default, skip_serializing_if = "Option::is_none")]
    pub result: Option<ResultDef>,
    #[serde(default)]
    pub body: Vec<Node>,
    /// WGSL expressions for @workgroup_size (1..3), compute only
    #[serde(default)]
    pub wg: Vec<String>,
    /// upper-case form of the name (filled in by the driver; the generator derives constant names from it)
    #[serde(default)]
    pub upper: String,
}

#[derive(Deserialize, Serialize, Clone, Debug)]
pub struct ConstDef {
    pub name: String,
    /// declared type text, e.g. "f32"; None = inferred
    #[serde(default, skip_serializing_if = "Option::is_none")]
    pub decl: Option<String>,
    /// WGSL initialiser expression text
    pub expr: String,
    /// the value the harness computed independently for plain literals ("f32:<bits>", "i32:<dec>", ...)
    #[serde(default, skip_serializing_if = "Option::is_none")]
    pub expect: Option<String>,
    /// the constant is not of scalar type (never exported)
    #[serde(default, skip_serializing_if = "is_false")]
    pub nonscalar: bool,
}

#[derive(Deserialize, Serialize, Clone, Debug)]
pub struct OverrideDef {
    pub name: String,
    /// bool | i32 | u32 | f32
    pub ty: String,
    #[serde(default, skip_serializing_if = "Option::is_none")]
    pub default: Option<String>,
    #[serde(default, skip_serializing_if = "Option::is_none")]
    pub id: Option<u32>,
}

#[derive(Deserialize, Serialize, Clone, Debug, Default)]
pub struct Shader {
    #[serde(default)]
    pub structs: Vec<StructDef>,
    #[serde(default)]
    pub globals: Vec<Global>,
    #[serde(default)]
    pub consts: Vec<ConstDef>,
    #[serde(default)]
    pub overrides: Vec<OverrideDef>,
    #[serde(default)]
    pub functions: Vec<FuncDef>,
    #[serde(default)]
    pub entries: Vec<EntryDef>,
    /// raw text placed in a leading block comment (C16)
    #[serde(default, skip_serializing_if = "Option::is_none")]
    pub comment: Option<String>,
    /// concrete-syntax decorations that leave the abstract shader unchanged: "diagnostic" (a `diagnostic(off, ..)` directive),
    /// "const_assert" (a module-scope `const_assert`), "invariant" (`@invariant` on position outputs in structs),
    /// "interpolate" (`@interpolate(..)` variants on float @location members of structs no vertex entry takes)
    #[serde(default, skip_serializing_if = "Vec::is_empty")]
    pub decor: Vec<String>,
    /// `alias Name = ty;` declarations: concrete syntax only, every occurrence of `ty` in a member or variable type is spelled `Name`
    #[serde(default, skip_serializing_if = "Vec::is_empty")]
    pub aliases: Vec<AliasDef>,
}

#[derive(Deserialize, Serialize, Clone, Debug, PartialEq)]
pub struct AliasDef {
    pub name: String,
    pub ty: Ty,
}

#[derive(Deserialize, Serialize, Clone, Debug, PartialEq)]
pub struct Opts {
    #[serde(default)]
    pub bmv: bool,
    #[serde(default)]
    pub bmh: bool,
    #[serde(default)]
    pub enc: bool,
    #[serde(default)]
    pub serde: bool,
    /// rust | glam | nalgebra
    #[serde(default = "mv_default")]
    pub mv: String,
    #[serde(default)]
    pub rustfmt: bool,
    /// none | all | default(=all) | nof64 (all minus FLOAT64) | empty
    #[serde(default = "validate_default")]
    pub validate: String,
    /// Some(path) = create_shader_module(include path); None = embedded
    #[serde(default, skip_serializing_if = "Option::is_none")]
    pub include: Option<String>,
}
fn mv_default() -> String {
    "rust".into()
}
fn validate_default() -> String {
    "none".into()
}
impl Default for Opts {
    fn default() -> Self {
        Opts {
            bmv: false,
            bmh: false,
            enc: false,
            serde: false,
            mv: mv_default(),
            rustfmt: false,
            validate: validate_default(),
            include: None,
        }
    }
}

impl Opts {
    pub fn to_write_options(&self) -> wgsl_to_wgpu::WriteOptions {
        use wgsl_to_wgpu::*;
        WriteOptions {
            derive_bytemuck_vertex: self.bmv,
            derive_bytemuck_host_shareable: self.bmh,
            derive_encase_host_shareable: self.enc,
            derive_serde: self.serde,
            matrix_vector_types: match self.mv.as_str() {
                "glam" => MatrixVectorTypes::Glam,
                "nalgebra" => MatrixVectorTypes::Nalgebra,
                _ => MatrixVectorTypes::Rust,
            },
            rustfmt: self.rustfmt,
            validate: match self.validate.as_str() {
                "all" => Some(ValidationOptions::default()),
                v => crate::oracle::caps_of(v).map(|capabilities| ValidationOptions { capabilities }),
            },
        }
    }
}

/// One generator call to perform. Either an abstract shader `s` (concretised by the driver)
/// or raw WGSL text `wgsl`.
#[derive(Deserialize, Serialize, Clone, Debug)]
pub struct Case {
    pub id: String,
    #[serde(default)]
    pub family: String,
    #[serde(default, rename = "S", skip_serializing_if = "Option::is_none")]
    pub s: Option<Shader>,
    #[serde(default, skip_serializing_if = "Option::is_none")]
    pub wgsl: Option<String>,
    #[serde(default)]
    pub opts: Opts,
    /// repeat the call this many extra times (C18)
    #[serde(default)]
    pub repeat: u32,
    /// formatter fault plan executed by the stub `rustfmt` (C19); "absent" = no formatter on PATH
    #[serde(default, skip_serializing_if = "Option::is_none")]
    pub fmt_plan: Option<String>,
    /// the parent waits at the `fmt.spawned` sync point so that the child has finished before the write
    #[serde(default)]
    pub fmt_late: bool,
    /// operation sequence over the generated API to execute on the compiled module (C04; used by the probe generator only)
    #[serde(default, skip_serializing_if = "Option::is_none")]
    pub ops: Option<serde_json::Value>,
    /// environment variables in force during this call only (None value = unset): the target description cargo gives a build script
    #[serde(default, skip_serializing_if = "Option::is_none")]
    pub env: Option<std::collections::BTreeMap<String, Option<String>>>,
    /// "small" / "large": program text below / above the OS pipe buffer (C19)
    #[serde(default, skip_serializing_if = "Option::is_none")]
    pub size_class: Option<String>,
}
