//! Independent oracles computed with naga directly on the concrete WGSL text.
use naga::valid::{Capabilities, ValidationFlags, Validator};
use serde_json::{json, Map, Value};

pub struct Oracle {
    pub json: Value,
    pub module: Option<naga::Module>,
}

fn stage_name(s: naga::ShaderStage) -> &'static str {
    match s {
        naga::ShaderStage::Vertex => "VERTEX",
        naga::ShaderStage::Fragment => "FRAGMENT",
        naga::ShaderStage::Compute => "COMPUTE",
    }
}

fn sorted_stages(mut v: Vec<&'static str>) -> Vec<&'static str> {
    let order = |s: &str| match s {
        "VERTEX" => 0,
        "FRAGMENT" => 1,
        _ => 2,
    };
    v.sort_by_key(|s| order(s));
    v.dedup();
    v
}

pub fn caps_of(name: &str) -> Option<Capabilities> {
    match name {
        "none" => None,
        "nof64" => Some(Capabilities::all() - Capabilities::FLOAT64),
        "empty" => Some(Capabilities::empty()),
        // "all-PUSH_CONSTANT": every capability but the named one; "only-FLOAT64": just the named one
        n if n.starts_with("all-") => Some(Capabilities::all() - Capabilities::from_name(&n[4..]).expect("capability name")),
        n if n.starts_with("only-") => Some(Capabilities::from_name(&n[5..]).expect("capability name")),
        _ => Some(Capabilities::all()),
    }
}

fn count_block(b: &naga::Block) -> u64 {
    let mut n = b.len() as u64;
    for s in b.iter() {
        match s {
            naga::Statement::Block(b) => n += count_block(b),
            naga::Statement::If { accept, reject, .. } => n += count_block(accept) + count_block(reject),
            naga::Statement::Switch { cases, .. } => {
                for c in cases {
                    n += count_block(&c.body)
                }
            }
            naga::Statement::Loop { body, continuing, .. } => {
                n += count_block(body) + count_block(continuing)
            }
            _ => {}
        }
    }
    n
}

fn literal_json(l: &naga::Literal) -> Value {
    match l {
        naga::Literal::F64(v) => json!({"ty":"f64","bits":format!("{:016x}", v.to_bits())}),
        naga::Literal::F32(v) => json!({"ty":"f32","bits":format!("{:08x}", v.to_bits())}),
        naga::Literal::U32(v) => json!({"ty":"u32","dec":v.to_string()}),
        naga::Literal::I32(v) => json!({"ty":"i32","dec":v.to_string()}),
        naga::Literal::U64(v) => json!({"ty":"u64","dec":v.to_string()}),
        naga::Literal::I64(v) => json!({"ty":"i64","dec":v.to_string()}),
        naga::Literal::Bool(v) => json!({"ty":"bool","dec":v.to_string()}),
        naga::Literal::AbstractInt(v) => json!({"ty":"abstract_int","dec":v.to_string()}),
        naga::Literal::AbstractFloat(v) => json!({"ty":"abstract_float","bits":format!("{:016x}", v.to_bits())}),
    }
}

fn scalar_name(s: &naga::Scalar) -> String {
    let k = match s.kind {
        naga::ScalarKind::Sint => "i",
        naga::ScalarKind::Uint => "u",
        naga::ScalarKind::Float => "f",
        naga::ScalarKind::Bool => return "bool".into(),
        naga::ScalarKind::AbstractInt => return "abstract_int".into(),
        naga::ScalarKind::AbstractFloat => return "abstract_float".into(),
    };
    format!("{k}{}", s.width as u32 * 8)
}

pub fn run(src: &str, validate_opt: &str) -> Oracle {
    let mut o = Map::new();
    let module = match naga::front::wgsl::parse_str(src) {
        Ok(m) => {
            o.insert("parse".into(), json!({"ok": true}));
            m
        }
        Err(e) => {
            o.insert(
                "parse".into(),
                json!({"ok": false, "msg": e.message(), "display": format!("{e}")}),
            );
            return Oracle {
                json: Value::Object(o),
                module: None,
            };
        }
    };
    // validation with all capabilities (the domain of "valid WGSL" for the judged properties)
    let info_all = Validator::new(ValidationFlags::all(), Capabilities::all()).validate(&module);
    o.insert(
        "valid_all".into(),
        match &info_all {
            Ok(_) => json!({"ok": true}),
            Err(e) => json!({"ok": false, "display": format!("{}", e.as_inner())}),
        },
    );
    // validation with the capabilities the call asks for
    if let Some(caps) = caps_of(validate_opt) {
        let r = Validator::new(ValidationFlags::all(), caps).validate(&module);
        o.insert(
            "valid_req".into(),
            match &r {
                Ok(_) => json!({"ok": true}),
                Err(e) => json!({"ok": false, "display": format!("{}", e.as_inner())}),
            },
        );
    }
    // IR size
    let mut nodes: u64 = 0;
    let mut fn_nodes = Map::new();
    for (_, f) in module.functions.iter() {
        let n = f.expressions.len() as u64 + count_block(&f.body);
        nodes += n;
        if let Some(name) = &f.name {
            fn_nodes.insert(name.clone(), json!(n));
        }
    }
    for e in &module.entry_points {
        let n = e.function.expressions.len() as u64 + count_block(&e.function.body);
        nodes += n;
        fn_nodes.insert(e.name.clone(), json!(n));
    }
    o.insert(
        "ir".into(),
        json!({"functions": module.functions.len(), "entries": module.entry_points.len(),
               "nodes": nodes, "types": module.types.len(), "globals": module.global_variables.len(),
               "fn_nodes": fn_nodes}),
    );
    // visibility oracle: naga's own global-use analysis (what wgpu-core's check_stage consumes)
    if let Ok(info) = &info_all {
        let mut vis = Map::new();
        for (h, g) in module.global_variables.iter() {
            let mut st = vec![];
            for (i, e) in module.entry_points.iter().enumerate() {
                if !info.get_entry_point(i)[h].is_empty() {
                    st.push(stage_name(e.stage));
                }
            }
            if let Some(n) = &g.name {
                vis.insert(n.clone(), json!(sorted_stages(st)));
            }
        }
        o.insert("vis".into(), Value::Object(vis));
    }
    // layout oracle
    let mut layouter = naga::proc::Layouter::default();
    if layouter.update(module.to_ctx()).is_ok() {
        let mut lay = Map::new();
        for (h, t) in module.types.iter() {
            if let naga::TypeInner::Struct { members, span } = &t.inner {
                if let Some(n) = &t.name {
                    lay.insert(
                        n.clone(),
                        json!({"size": layouter[h].size, "align": layouter[h].alignment.round_up(1), "span": span,
                            "offsets": members.iter().map(|m| json!({"name": m.name, "off": m.offset})).collect::<Vec<_>>()}),
                    );
                }
            }
        }
        o.insert("layout".into(), Value::Object(lay));
        let mut gsz = Map::new();
        for (_, g) in module.global_variables.iter() {
            if let Some(n) = &g.name {
                gsz.insert(n.clone(), json!(module.types[g.ty].inner.size(module.to_ctx())));
            }
        }
        o.insert("global_size".into(), Value::Object(gsz));
    }
    // constants oracle
    let mut consts = vec![];
    for (_, c) in module.constants.iter() {
        let ty = &module.types[c.ty].inner;
        let tyj = match ty {
            naga::TypeInner::Scalar(s) => json!({"scalar": scalar_name(s)}),
            _ => json!({"scalar": "", "nonscalar": true}),
        };
        let lit = match &module.global_expressions[c.init] {
            naga::Expression::Literal(l) => literal_json(l),
            // the constant evaluator leaves `T()` of a scalar type as a zero value: its value is the zero of that type
            naga::Expression::ZeroValue(zt) => match module.types[*zt].inner {
                naga::TypeInner::Scalar(sc) => match naga::Literal::zero(sc) {
                    Some(l) => literal_json(&l),
                    None => json!({"ty": "", "nonliteral": true}),
                },
                _ => json!({"ty": "", "nonliteral": true}),
            },
            _ => json!({"ty": "", "nonliteral": true}),
        };
        consts.push(json!({"name": c.name.clone().unwrap_or_default(), "named": c.name.is_some(), "ty": tyj, "lit": lit}));
    }
    o.insert("consts".into(), Value::Array(consts));
    // entry points
    let eps: Vec<Value> = module
        .entry_points
        .iter()
        .map(|e| json!({"name": e.name, "stage": stage_name(e.stage), "wg": e.workgroup_size,
                        "wg_overrides": e.workgroup_size_overrides.is_some()}))
        .collect();
    o.insert("entries".into(), Value::Array(eps));
    Oracle {
        json: Value::Object(o),
        module: Some(module),
    }
}
