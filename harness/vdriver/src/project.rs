//! Static projection of a generated module: parse the returned text with `syn` and project the
//! items the properties talk about into JSON observations.
use proc_macro2::{Delimiter, TokenStream, TokenTree};
use quote::ToTokens;
use serde_json::{json, Map, Value};
use std::hash::{Hash, Hasher};

/// Token sequence modulo optional trailing separators (a `,` directly before a closing delimiter).
pub fn norm_tokens(ts: TokenStream, out: &mut Vec<String>) {
    let v: Vec<TokenTree> = ts.into_iter().collect();
    let n = v.len();
    for (i, t) in v.into_iter().enumerate() {
        match t {
            TokenTree::Group(g) => {
                let (o, c) = match g.delimiter() {
                    Delimiter::Parenthesis => ("(", ")"),
                    Delimiter::Brace => ("{", "}"),
                    Delimiter::Bracket => ("[", "]"),
                    Delimiter::None => ("", ""),
                };
                out.push(o.to_string());
                norm_tokens(g.stream(), out);
                out.push(c.to_string());
            }
            TokenTree::Punct(p) if p.as_char() == ',' && i + 1 == n => {}
            other => out.push(other.to_string()),
        }
    }
}

pub fn hash_strs(v: &[String]) -> String {
    // SipHash with fixed keys: deterministic across processes.
    #[allow(deprecated)]
    let mut h = std::hash::SipHasher::new_with_keys(7, 11);
    for s in v {
        s.hash(&mut h);
    }
    format!("{:016x}", h.finish())
}

pub fn hash_bytes(b: &[u8]) -> String {
    #[allow(deprecated)]
    let mut h = std::hash::SipHasher::new_with_keys(7, 11);
    b.hash(&mut h);
    format!("{:016x}", h.finish())
}

pub fn tokens_sha(text: &str) -> Option<String> {
    let ts: TokenStream = text.parse().ok()?;
    let mut v = Vec::new();
    norm_tokens(ts, &mut v);
    Some(hash_strs(&v))
}

fn toks<T: ToTokens>(t: &T) -> String {
    let mut v = Vec::new();
    norm_tokens(t.to_token_stream(), &mut v);
    v.join(" ")
}

fn path_str(p: &syn::Path) -> String {
    p.segments
        .iter()
        .map(|s| s.ident.to_string())
        .collect::<Vec<_>>()
        .join("::")
}

/// Generic value tree for an expression.
pub fn expr_val(e: &syn::Expr) -> Value {
    use syn::Expr::*;
    match e {
        Lit(l) => match &l.lit {
            syn::Lit::Str(s) => json!({"$str": s.value()}),
            syn::Lit::Int(i) => json!({"$int": i.base10_digits(), "suffix": i.suffix()}),
            syn::Lit::Float(f) => json!({"$float": f.base10_digits(), "suffix": f.suffix()}),
            syn::Lit::Bool(b) => json!({"$bool": b.value}),
            other => json!({"$lit": other.to_token_stream().to_string()}),
        },
        Path(p) => json!({"$path": path_str(&p.path)}),
        Reference(r) => expr_val(&r.expr),
        Paren(p) => expr_val(&p.expr),
        Group(g) => expr_val(&g.expr),
        Cast(c) => json!({"$cast": toks(&c.ty), "e": expr_val(&c.expr)}),
        Unary(u) => json!({"$unary": u.op.to_token_stream().to_string(), "e": expr_val(&u.expr)}),
        Binary(b) => {
            json!({"$bin": b.op.to_token_stream().to_string(), "l": expr_val(&b.left), "r": expr_val(&b.right)})
        }
        Array(a) => Value::Array(a.elems.iter().map(expr_val).collect()),
        Struct(s) => {
            let mut m = Map::new();
            for f in &s.fields {
                m.insert(f.member.to_token_stream().to_string(), expr_val(&f.expr));
            }
            json!({"$struct": path_str(&s.path), "f": Value::Object(m), "rest": s.rest.as_ref().map(|r| expr_val(r))})
        }
        Call(c) => {
            json!({"$call": expr_val(&c.func), "args": c.args.iter().map(expr_val).collect::<Vec<_>>()})
        }
        MethodCall(m) => {
            json!({"$method": m.method.to_string(), "recv": expr_val(&m.receiver), "args": m.args.iter().map(expr_val).collect::<Vec<_>>()})
        }
        Field(f) => {
            json!({"$field": f.member.to_token_stream().to_string(), "base": expr_val(&f.base)})
        }
        Range(r) => {
            json!({"$range": [r.start.as_ref().map(|e| expr_val(e)), r.end.as_ref().map(|e| expr_val(e))], "incl": matches!(r.limits, syn::RangeLimits::Closed(_))})
        }
        Macro(m) => {
            json!({"$macro": path_str(&m.mac.path), "tokens": toks(&m.mac.tokens), "args": macro_args(&m.mac)})
        }
        other => json!({"$other": toks(other)}),
    }
}

fn macro_args(m: &syn::Macro) -> Value {
    let parser = syn::punctuated::Punctuated::<syn::Expr, syn::Token![,]>::parse_terminated;
    match m.parse_body_with(parser) {
        Ok(args) => Value::Array(args.iter().map(expr_val).collect()),
        Err(_) => Value::Null,
    }
}

fn vpath(v: &Value) -> Option<&str> {
    v.get("$path").and_then(|p| p.as_str())
}
fn last_seg(p: &str) -> &str {
    p.rsplit("::").next().unwrap_or(p)
}
fn vint(v: &Value) -> Option<String> {
    if let Some(c) = v.get("$cast") {
        let _ = c;
        return vint(&v["e"]);
    }
    v.get("$int").and_then(|p| p.as_str()).map(|s| s.to_string())
}

/// Evaluate a `wgpu::ShaderStages` constant expression to a sorted list of stage names.
pub fn eval_stages(v: &Value) -> Option<Vec<String>> {
    fn bits(v: &Value) -> Option<u8> {
        if let Some(p) = vpath(v) {
            return match last_seg(p) {
                "VERTEX" => Some(1),
                "FRAGMENT" => Some(2),
                "COMPUTE" => Some(4),
                "VERTEX_FRAGMENT" => Some(3),
                "NONE" => Some(0),
                "PUSH_CONSTANT_STAGES" => Some(0x80),
                _ => None,
            };
        }
        if let Some(c) = v.get("$call") {
            let p = vpath(c)?;
            return match last_seg(p) {
                "all" => Some(7),
                "empty" => Some(0),
                _ => None,
            };
        }
        if let Some(m) = v.get("$method").and_then(|m| m.as_str()) {
            let a = bits(&v["recv"])?;
            let b = bits(v["args"].get(0)?)?;
            return match m {
                "union" => Some(a | b),
                "intersection" => Some(a & b),
                "difference" => Some(a & !b),
                _ => None,
            };
        }
        if let Some(op) = v.get("$bin").and_then(|m| m.as_str()) {
            let a = bits(&v["l"])?;
            let b = bits(&v["r"])?;
            return match op {
                "|" => Some(a | b),
                "&" => Some(a & b),
                _ => None,
            };
        }
        None
    }
    let b = bits(v)?;
    if b & 0x80 != 0 {
        return Some(vec!["$PUSH_CONSTANT_STAGES".into()]);
    }
    let mut out = vec![];
    if b & 1 != 0 {
        out.push("VERTEX".to_string());
    }
    if b & 2 != 0 {
        out.push("FRAGMENT".to_string());
    }
    if b & 4 != 0 {
        out.push("COMPUTE".to_string());
    }
    Some(out)
}

fn binding_type(v: &Value) -> Value {
    // wgpu::BindingType::{Buffer{..}, Texture{..}, StorageTexture{..}, Sampler(..)}
    if let Some(sp) = v.get("$struct").and_then(|s| s.as_str()) {
        let f = &v["f"];
        match last_seg(sp) {
            "Buffer" => {
                let ty = &f["ty"];
                let (bty, ro) = if let Some(p) = vpath(ty) {
                    (last_seg(p).to_lowercase(), Value::Null)
                } else if ty.get("$struct").is_some() {
                    (
                        last_seg(ty["$struct"].as_str().unwrap_or("")).to_lowercase(),
                        ty["f"]["read_only"]["$bool"].clone(),
                    )
                } else {
                    ("?".into(), Value::Null)
                };
                json!({"k":"buffer","bty":bty,"ro":ro,
                       "dyn": f["has_dynamic_offset"]["$bool"], "min": vpath(&f["min_binding_size"]).map(last_seg)})
            }
            "Texture" => {
                let st = &f["sample_type"];
                let sample = if let Some(p) = vpath(st) {
                    last_seg(p).to_lowercase()
                } else if st.get("$struct").is_some() {
                    if st["f"]["filterable"]["$bool"] == json!(true) {
                        "float_filterable".into()
                    } else {
                        "float".into()
                    }
                } else {
                    "?".into()
                };
                json!({"k":"texture","sample":sample,
                       "dim": vpath(&f["view_dimension"]).map(last_seg),
                       "multi": f["multisampled"]["$bool"]})
            }
            "StorageTexture" => json!({"k":"storage_texture",
                       "access": vpath(&f["access"]).map(last_seg),
                       "format": vpath(&f["format"]).map(last_seg),
                       "dim": vpath(&f["view_dimension"]).map(last_seg)}),
            _ => json!({"k":"?","raw":v}),
        }
    } else if let Some(c) = v.get("$call") {
        let p = vpath(c).unwrap_or("");
        if last_seg(p) == "Sampler" {
            json!({"k":"sampler","ty": v["args"].get(0).and_then(vpath).map(last_seg)})
        } else {
            json!({"k":"?","raw":v})
        }
    } else {
        json!({"k":"?","raw":v})
    }
}

/// Flattened view of a field type: outer-to-inner array lengths and the leaf.
pub fn flat_type(t: &syn::Type) -> Value {
    let mut dims: Vec<Value> = vec![];
    let mut cur = t;
    loop {
        match cur {
            syn::Type::Array(a) => {
                let n = match &a.len {
                    syn::Expr::Lit(l) => match &l.lit {
                        syn::Lit::Int(i) => i.base10_digits().to_string(),
                        o => o.to_token_stream().to_string(),
                    },
                    o => o.to_token_stream().to_string(),
                };
                dims.push(match n.parse::<i64>() {
                    Ok(v) if v <= i32::MAX as i64 => json!(v),
                    _ => json!(n),
                });
                cur = &a.elem;
            }
            syn::Type::Paren(p) => cur = &p.elem,
            syn::Type::Group(g) => cur = &g.elem,
            _ => break,
        }
    }
    let leaf = match cur {
        syn::Type::Path(p) => {
            let ps = path_str(&p.path);
            let last = p.path.segments.last();
            let mut targs: Vec<Value> = vec![];
            let mut cargs: Vec<Value> = vec![];
            if let Some(seg) = last {
                if let syn::PathArguments::AngleBracketed(ab) = &seg.arguments {
                    for a in &ab.args {
                        match a {
                            syn::GenericArgument::Type(t) => targs.push(flat_type(t)),
                            syn::GenericArgument::Const(e) => cargs.push(json!(e.to_token_stream().to_string().parse::<i64>().unwrap_or(-1))),
                            _ => {}
                        }
                    }
                }
            }
            // integer literals in generic position parse as types/consts depending on syn; normalise both
            let prims = ["f32", "f64", "i32", "u32", "i64", "u64", "bool", "i8", "u8", "i16", "u16", "f16"];
            if prims.contains(&ps.as_str()) {
                json!({"fam": "prim", "s": ps})
            } else if ps.starts_with("glam::") {
                json!({"fam": "glam", "name": ps.trim_start_matches("glam::")})
            } else if ps.starts_with("nalgebra::") {
                json!({"fam": "nalgebra", "name": ps.trim_start_matches("nalgebra::"),
                       "s": targs.get(0).and_then(|t| t["leaf"]["s"].as_str().map(|x| x.to_string())),
                       "dims": cargs})
            } else if ps == "Vec" || ps == "std::vec::Vec" {
                json!({"fam": "vec_of", "inner": targs.get(0).cloned()})
            } else if !ps.contains("::") {
                json!({"fam": "struct", "name": ps})
            } else {
                json!({"fam": "?", "raw": ps})
            }
        }
        other => json!({"fam": "?", "raw": toks(other)}),
    };
    json!({"dims": dims, "leaf": leaf})
}

fn derives_of(attrs: &[syn::Attribute]) -> (Vec<String>, bool, Vec<String>) {
    let mut derives = vec![];
    let mut repr_c = false;
    let mut others = vec![];
    for a in attrs {
        if a.path().is_ident("derive") {
            if let Ok(list) = a.parse_args_with(
                syn::punctuated::Punctuated::<syn::Path, syn::Token![,]>::parse_terminated,
            ) {
                for p in list {
                    derives.push(path_str(&p));
                }
            }
        } else if a.path().is_ident("repr") {
            if toks(&a.meta).contains("C") {
                repr_c = true;
            }
            others.push(toks(&a.meta));
        } else {
            others.push(toks(&a.meta));
        }
    }
    (derives, repr_c, others)
}

fn fn_params(sig: &syn::Signature) -> Vec<Value> {
    sig.inputs
        .iter()
        .map(|a| match a {
            syn::FnArg::Receiver(_) => json!({"name":"self","ty":"Self"}),
            syn::FnArg::Typed(t) => json!({"name": toks(&t.pat), "ty": toks(&t.ty)}),
        })
        .collect()
}

/// All expression statements / tail expression of a block as value trees.
fn block_vals(b: &syn::Block) -> Vec<Value> {
    b.stmts
        .iter()
        .map(|s| match s {
            syn::Stmt::Expr(e, _) => expr_val(e),
            syn::Stmt::Local(l) => {
                json!({"$let": toks(&l.pat), "init": l.init.as_ref().map(|i| expr_val(&i.expr))})
            }
            syn::Stmt::Macro(m) => json!({"$macro": path_str(&m.mac.path), "tokens": toks(&m.mac.tokens)}),
            syn::Stmt::Item(i) => json!({"$item": toks(i)}),
        })
        .collect()
}

const FIXED_STRUCTS: &[&str] = &["OverrideConstants", "VertexEntry", "FragmentEntry"];

pub fn project(text: &str, wgsl_source: &str) -> Result<Value, String> {
    let file = syn::parse_file(text).map_err(|e| format!("syn: {e}"))?;
    let mut structs: Vec<Value> = vec![];
    let mut consts = vec![];
    let mut entry_consts = vec![];
    let mut groups: Vec<Value> = vec![];
    let mut vertex_structs = vec![];
    let mut fns = Map::new();
    let mut compute = vec![];
    let mut wg_sizes = vec![];
    let mut source = Value::Null;
    let mut push_stages = Value::Null;
    let mut pipeline_layout = Value::Null;
    let mut set_bind_groups = Value::Null;
    let mut bind_groups_struct = Value::Null;
    let mut set_impls = vec![];
    let mut overrides = Value::Null;
    let mut override_consts_fn = Value::Null;
    let mut items_order: Vec<String> = vec![];
    let mut struct_sec: Vec<String> = vec![];
    let mut rest_sec: Vec<String> = vec![];
    let mut nosource_sec: Vec<String> = vec![];
    let mut create_shader_module = Value::Null;
    let mut top_mods = vec![];

    for item in &file.items {
        let mut is_struct_sec = false;
        match item {
            syn::Item::Struct(s) => {
                let name = s.ident.to_string();
                items_order.push(format!("struct {name}"));
                let (derives, repr_c, other_attrs) = derives_of(&s.attrs);
                let fields: Vec<Value> = s
                    .fields
                    .iter()
                    .map(|f| {
                        json!({"name": f.ident.as_ref().map(|i| i.to_string()),
                               "ty": toks(&f.ty).replace(' ', ""),
                               "flat": flat_type(&f.ty),
                               "attrs": f.attrs.iter().map(|a| toks(&a.meta).replace(' ', "")).collect::<Vec<_>>(),
                               "pub": matches!(f.vis, syn::Visibility::Public(_))})
                    })
                    .collect();
                if FIXED_STRUCTS.contains(&name.as_str()) && name == "OverrideConstants" {
                    overrides = json!({"fields": fields, "derives": derives});
                } else if FIXED_STRUCTS.contains(&name.as_str())
                    && !s.generics.params.is_empty()
                {
                    // VertexEntry<N> / FragmentEntry<N>
                    fns.insert(format!("struct {name}"), json!({"fields": fields, "derives": derives}));
                } else {
                    is_struct_sec = true;
                    structs.push(json!({"name": name, "repr_c": repr_c, "derives": derives,
                        "attrs": other_attrs, "fields": fields, "asserts": [],
                        "pub": matches!(s.vis, syn::Visibility::Public(_))}));
                }
            }
            syn::Item::Const(c) => {
                let name = c.ident.to_string();
                items_order.push(format!("const {name}"));
                let v = expr_val(&c.expr);
                if name == "_" {
                    is_struct_sec = true;
                    // const _: () = assert!(lhs == N, "text");
                    let t = toks(&c.expr);
                    let a = parse_assert(&v);
                    // a layout check that only exists under some configuration (`#[cfg(..)]` / `#[cfg_attr(..)]`) is not a check of every build
                    let conditional = c.attrs.iter().any(|at| at.path().is_ident("cfg") || at.path().is_ident("cfg_attr"));
                    let a = a.map(|mut a| {
                        if conditional {
                            a["conditional"] = json!(true);
                        }
                        a
                    });
                    match a {
                        Some(a) => {
                            let sname = a["struct"].as_str().unwrap_or("").to_string();
                            if let Some(st) = structs.iter_mut().rev().find(|s| s["name"] == sname) {
                                st["asserts"].as_array_mut().unwrap().push(a);
                            } else {
                                consts.push(json!({"name":"_","orphan_assert":a}));
                            }
                        }
                        None => consts.push(json!({"name":"_","raw":t})),
                    }
                } else if name == "SOURCE" {
                    source = match &v {
                        v if v.get("$str").is_some() => {
                            let sv = v["$str"].as_str().unwrap();
                            json!({"kind":"embedded","eq_input": sv == wgsl_source, "len": sv.len()})
                        }
                        v if v.get("$macro").and_then(|m| m.as_str()) == Some("concat")
                            && v["args"].as_array().map(|a| !a.is_empty() && a.iter().all(|x| x.get("$str").is_some())).unwrap_or(false) =>
                        {
                            // concat! of string literals evaluates to their concatenation
                            let sv: String = v["args"].as_array().unwrap().iter().map(|x| x["$str"].as_str().unwrap()).collect();
                            json!({"kind":"embedded","eq_input": sv == wgsl_source, "len": sv.len(), "via": "concat"})
                        }
                        v if v.get("$macro").is_some() => {
                            json!({"kind": v["$macro"], "path": v["args"].get(0).and_then(|a| a.get("$str")).cloned()})
                        }
                        other => json!({"kind":"?","raw":other}),
                    };
                } else if name == "PUSH_CONSTANT_STAGES" {
                    push_stages = json!({"stages": eval_stages(&v), "ty": toks(&c.ty).replace(' ', "")});
                } else if name.starts_with("ENTRY_") && v.get("$str").is_some() {
                    entry_consts.push(json!({"const": name, "value": v["$str"], "ty": toks(&c.ty).replace(' ', "")}));
                } else {
                    let ty = toks(&c.ty).replace(' ', "");
                    let lit = const_lit(&v);
                    let mut cj = json!({"name": name, "ty": ty, "lit": lit, "pub": matches!(c.vis, syn::Visibility::Public(_))});
                    if let Some(cn) = const_canon(&ty, &lit) {
                        cj["canon"] = json!(cn);
                    }
                    consts.push(cj);
                }
            }
            syn::Item::Impl(i) => {
                let name = toks(&i.self_ty);
                items_order.push(format!("impl {name}"));
                if name == "OverrideConstants" {
                    for ii in &i.items {
                        if let syn::ImplItem::Fn(f) = ii {
                            if f.sig.ident == "constants" {
                                override_consts_fn = Value::Array(block_vals(&f.block));
                            }
                        }
                    }
                } else {
                    vertex_structs.push(project_vertex_impl(&name, i));
                }
            }
            syn::Item::Mod(m) => {
                let name = m.ident.to_string();
                items_order.push(format!("mod {name}"));
                top_mods.push(name.clone());
                if let Some((_, items)) = &m.content {
                    if name == "bind_groups" {
                        project_bind_groups(items, &mut groups, &mut bind_groups_struct, &mut set_impls);
                    } else if name == "compute" {
                        for it in items {
                            match it {
                                syn::Item::Const(c) => {
                                    wg_sizes.push(json!({"const": c.ident.to_string(), "ty": toks(&c.ty).replace(' ', ""),
                                        "value": match expr_val(&c.expr) { Value::Array(a) => a.iter().map(|x| vint(x)).collect::<Vec<_>>(), _ => vec![] }}));
                                }
                                syn::Item::Fn(f) => {
                                    compute.push(project_compute_fn(f));
                                }
                                _ => {}
                            }
                        }
                    }
                }
            }
            syn::Item::Fn(f) => {
                let name = f.sig.ident.to_string();
                items_order.push(format!("fn {name}"));
                let body = block_vals(&f.block);
                match name.as_str() {
                    "create_pipeline_layout" => {
                        pipeline_layout = project_pipeline_layout(&body);
                    }
                    "set_bind_groups" => {
                        set_bind_groups = json!({"params": fn_params(&f.sig), "calls": set_calls(&body)});
                    }
                    "create_shader_module" => {
                        create_shader_module = json!({"body": body});
                    }
                    _ => {
                        fns.insert(
                            format!("fn {name}"),
                            json!({"params": fn_params(&f.sig), "ret": match &f.sig.output { syn::ReturnType::Default => String::new(), syn::ReturnType::Type(_, t) => toks(t).replace(' ', "") }, "body": body}),
                        );
                    }
                }
            }
            other => items_order.push(format!("other {}", toks(other).chars().take(40).collect::<String>())),
        }
        let mut v = Vec::new();
        norm_tokens(item.to_token_stream(), &mut v);
        let is_source = matches!(item, syn::Item::Const(c) if c.ident == "SOURCE");
        if !is_source {
            nosource_sec.extend(v.iter().cloned());
        }
        if is_struct_sec {
            struct_sec.extend(v);
        } else {
            rest_sec.extend(v);
        }
    }
    Ok(json!({
        "structs": structs, "consts": consts, "entry_consts": entry_consts, "groups": groups,
        "vertex_structs": vertex_structs, "fns": Value::Object(fns), "compute": compute, "wg_sizes": wg_sizes,
        "source": source, "push_stages": push_stages, "pipeline_layout": pipeline_layout,
        "set_bind_groups": set_bind_groups, "bind_groups_struct": bind_groups_struct, "set_impls": set_impls,
        "overrides": overrides, "override_consts_fn": override_consts_fn,
        "create_shader_module": create_shader_module,
        "items": items_order, "mods": top_mods,
        "structs_sha": hash_strs(&struct_sec), "rest_sha": hash_strs(&rest_sec), "nosource_sha": hash_strs(&nosource_sec),
    }))
}

/// the value rustc gives a literal constant of type `ty` (Rust's own decimal parsing is correctly rounded, like the compiler's)
fn const_canon(ty: &str, lit: &Value) -> Option<String> {
    let (neg, l) = if lit["k"] == "neg" && lit["op"] == "-" { (true, &lit["e"]) } else { (false, lit) };
    let k = l["k"].as_str()?;
    if k == "bool" {
        return if neg || ty != "bool" { None } else { Some(format!("bool:{}", l["v"].as_bool()?)) };
    }
    if k != "int" && k != "float" {
        return None;
    }
    let digits = l["v"].as_str()?;
    let suffix = l["suffix"].as_str().unwrap_or("");
    if !suffix.is_empty() && suffix != ty {
        return None;
    }
    match ty {
        "f32" => {
            let x: f32 = digits.parse().ok()?;
            Some(format!("f32:{:08x}", (if neg { -x } else { x }).to_bits()))
        }
        "f64" => {
            let x: f64 = digits.parse().ok()?;
            Some(format!("f64:{:016x}", (if neg { -x } else { x }).to_bits()))
        }
        "i32" | "u32" | "i64" | "u64" if k == "int" => {
            let x: i128 = digits.parse().ok()?;
            let x = if neg { -x } else { x };
            let ok = match ty {
                "i32" => i32::try_from(x).is_ok(),
                "u32" => u32::try_from(x).is_ok(),
                "i64" => i64::try_from(x).is_ok(),
                _ => u64::try_from(x).is_ok(),
            };
            if ok { Some(format!("{ty}:{x}")) } else { None }
        }
        _ => None,
    }
}

fn const_lit(v: &Value) -> Value {
    if let Some(i) = v.get("$int") {
        json!({"k":"int","v":i,"suffix":v["suffix"]})
    } else if let Some(f) = v.get("$float") {
        json!({"k":"float","v":f,"suffix":v["suffix"]})
    } else if let Some(b) = v.get("$bool") {
        json!({"k":"bool","v":b})
    } else if v.get("$unary").is_some() {
        let inner = const_lit(&v["e"]);
        json!({"k":"neg","op":v["$unary"],"e":inner})
    } else {
        json!({"k":"?","raw":v})
    }
}

/// `assert!(std::mem::offset_of!(S, f) == N, "..")` / `assert!(std::mem::size_of::<S>() == N, "..")`
fn parse_assert(v: &Value) -> Option<Value> {
    if v.get("$macro")?.as_str()? != "assert" {
        return None;
    }
    let args = v.get("args")?.as_array()?;
    let cond = args.first()?;
    if cond.get("$bin")?.as_str()? != "==" {
        return None;
    }
    let n = vint(&cond["r"])?;
    let l = &cond["l"];
    let msg = args.get(1).and_then(|m| m.get("$str")).cloned();
    if let Some(m) = l.get("$macro") {
        if last_seg(m.as_str()?) == "offset_of" {
            let t = l["tokens"].as_str()?;
            let mut parts = t.split(',').map(|s| s.trim().to_string());
            let s = parts.next()?;
            let f = parts.next()?;
            return Some(json!({"struct": s, "field": f, "n": n, "msg": msg}));
        }
    }
    // size_of::<S>()
    let t = l.get("$call").map(|_| ()).and(Some(()))?;
    let _ = t;
    let raw = l["$call"].get("$path")?.as_str()?;
    if last_seg(raw) == "size_of" {
        // generic argument is lost in path_str; recover from message or tokens
        return Some(json!({"struct": msg.as_ref().and_then(|m| m.as_str()).and_then(|m| m.strip_prefix("size of ")).and_then(|m| m.strip_suffix(" does not match WGSL")).unwrap_or("?"),
            "field": Value::Null, "n": n, "msg": msg}));
    }
    None
}

fn project_vertex_impl(name: &str, i: &syn::ItemImpl) -> Value {
    let mut attrs = vec![];
    let mut count = Value::Null;
    let mut layout = Value::Null;
    for ii in &i.items {
        match ii {
            syn::ImplItem::Const(c) if c.ident == "VERTEX_ATTRIBUTES" => {
                count = json!(toks(&c.ty).replace(' ', ""));
                if let Value::Array(a) = expr_val(&c.expr) {
                    for at in a {
                        let f = &at["f"];
                        // offset: std::mem::offset_of!(S, field) as u64
                        let off = &f["offset"];
                        let inner = if off.get("$cast").is_some() { &off["e"] } else { off };
                        let (os, of) = inner["tokens"]
                            .as_str()
                            .map(|t| {
                                let mut p = t.split(',').map(|s| s.trim().to_string());
                                (p.next(), p.next())
                            })
                            .unwrap_or((None, None));
                        attrs.push(json!({"format": vpath(&f["format"]).map(last_seg),
                            "offset_struct": os, "offset_field": of,
                            "offset_macro": inner.get("$macro").cloned(),
                            "location": vint(&f["shader_location"])}));
                    }
                }
            }
            syn::ImplItem::Fn(f) if f.sig.ident == "vertex_buffer_layout" => {
                let b = block_vals(&f.block);
                if let Some(s) = b.last() {
                    let ff = &s["f"];
                    layout = json!({
                        "stride": ff["array_stride"],
                        "step_mode": ff["step_mode"],
                        "attributes": ff["attributes"],
                        "const": f.sig.constness.is_some(),
                        "params": fn_params(&f.sig)});
                }
            }
            _ => {}
        }
    }
    json!({"name": name, "count": count, "attrs": attrs, "layout": layout})
}

fn project_compute_fn(f: &syn::ItemFn) -> Value {
    let body = block_vals(&f.block);
    let mut lets = Map::new();
    let mut desc = Value::Null;
    for s in &body {
        if let Some(n) = s.get("$let").and_then(|n| n.as_str()) {
            lets.insert(n.to_string(), s["init"].clone());
        }
        if s.get("$method").and_then(|m| m.as_str()) == Some("create_compute_pipeline") {
            desc = s["args"].get(0).cloned().unwrap_or(Value::Null);
        }
    }
    json!({"fn": f.sig.ident.to_string(), "params": fn_params(&f.sig), "lets": Value::Object(lets), "desc": desc["f"].clone(), "desc_ty": desc["$struct"].clone()})
}

fn project_pipeline_layout(body: &[Value]) -> Value {
    for s in body {
        if s.get("$method").and_then(|m| m.as_str()) == Some("create_pipeline_layout") {
            let d = &s["args"][0]["f"];
            let bgls: Vec<Value> = d["bind_group_layouts"]
                .as_array()
                .map(|a| {
                    a.iter()
                        .map(|x| {
                            // bind_groups::BindGroupN::get_bind_group_layout(device)
                            let p = x["$call"].get("$path").and_then(|p| p.as_str()).unwrap_or("?");
                            json!(p)
                        })
                        .collect()
                })
                .unwrap_or_default();
            let ranges: Vec<Value> = d["push_constant_ranges"]
                .as_array()
                .map(|a| {
                    a.iter()
                        .map(|r| {
                            let f = &r["f"];
                            json!({"stages": eval_stages(&f["stages"]),
                                   "start": f["range"]["$range"][0].as_ref_int(),
                                   "end": f["range"]["$range"][1].as_ref_int(),
                                   "incl": f["range"]["incl"]})
                        })
                        .collect()
                })
                .unwrap_or_default();
            // the group number each listed layout belongs to (from the `BindGroup<N>` segment), however the call is spelled
            let nos: Option<Vec<String>> = bgls
                .iter()
                .map(|b: &Value| {
                    b.as_str().unwrap_or("").split("::").find_map(|seg| {
                        let seg = seg.trim();
                        seg.strip_prefix("BindGroup").filter(|n| !n.is_empty() && n.chars().all(|c| c.is_ascii_digit())).map(|n| n.to_string())
                    })
                })
                .collect();
            let mut out = json!({"bgls": bgls, "push_ranges": ranges, "label": d["label"]});
            if let Some(n) = nos {
                out["bgl_nos"] = json!(n);
            }
            return out;
        }
    }
    Value::Null
}

trait AsRefInt {
    fn as_ref_int(&self) -> Value;
}
impl AsRefInt for Value {
    fn as_ref_int(&self) -> Value {
        vint(self).map(Value::String).unwrap_or(Value::Null)
    }
}

/// `[self.]bind_groupN.set(pass);` statements -> receiver names
fn set_calls(body: &[Value]) -> Vec<Value> {
    body.iter()
        .filter_map(|s| {
            if s.get("$method").and_then(|m| m.as_str()) == Some("set") {
                let r = &s["recv"];
                let name = vpath(r)
                    .map(|p| p.to_string())
                    .or_else(|| r.get("$field").and_then(|f| f.as_str()).map(|f| format!("self.{f}")));
                Some(json!({"recv": name, "args": s["args"]}))
            } else {
                Some(json!({"other": s}))
            }
        })
        .collect()
}

fn project_bind_groups(
    items: &[syn::Item],
    groups: &mut Vec<Value>,
    bind_groups_struct: &mut Value,
    set_impls: &mut Vec<Value>,
) {
    // keyed by the number suffix of BindGroupN / BindGroupLayoutN / LAYOUT_DESCRIPTORN
    let mut by_no: std::collections::BTreeMap<String, Map<String, Value>> = Default::default();
    let mut order: Vec<String> = vec![];
    for it in items {
        match it {
            syn::Item::Struct(s) => {
                let name = s.ident.to_string();
                if name == "BindGroups" {
                    *bind_groups_struct = json!({"fields": s.fields.iter().map(|f| json!({"name": f.ident.as_ref().map(|i| i.to_string()), "ty": toks(&f.ty).replace(' ', "")})).collect::<Vec<_>>()});
                } else if let Some(no) = name.strip_prefix("BindGroupLayout") {
                    let e = by_no.entry(no.to_string()).or_default();
                    e.insert(
                        "fields".into(),
                        Value::Array(
                            s.fields
                                .iter()
                                .map(|f| {
                                    let ty = toks(&f.ty).replace(' ', "");
                                    let kind = if ty.contains("BufferBinding") {
                                        "buffer"
                                    } else if ty.contains("TextureView") {
                                        "texture"
                                    } else if ty.contains("Sampler") {
                                        "sampler"
                                    } else {
                                        "?"
                                    };
                                    json!({"name": f.ident.as_ref().map(|i| i.to_string()), "ty": ty, "kind": kind})
                                })
                                .collect(),
                        ),
                    );
                } else if let Some(no) = name.strip_prefix("BindGroup") {
                    if !order.contains(&no.to_string()) {
                        order.push(no.to_string());
                    }
                    by_no.entry(no.to_string()).or_default().insert("wrapper".into(), json!(toks(&s.fields)));
                }
            }
            syn::Item::Const(c) => {
                let name = c.ident.to_string();
                if let Some(no) = name.strip_prefix("LAYOUT_DESCRIPTOR") {
                    let v = expr_val(&c.expr);
                    // `const LAYOUT_DESCRIPTOR1: .. = LAYOUT_DESCRIPTOR0;`: the value is another group's descriptor
                    if let Some(other) = vpath(&v).map(last_seg).and_then(|p| p.strip_prefix("LAYOUT_DESCRIPTOR")) {
                        by_no.entry(no.to_string()).or_default().insert("entries_alias_of".into(), json!(other));
                        continue;
                    }
                    let f = &v["f"];
                    let entries: Vec<Value> = f["entries"]
                        .as_array()
                        .map(|a| {
                            a.iter()
                                .enumerate()
                                .map(|(pos, e)| {
                                    let ef = &e["f"];
                                    json!({"pos": pos, "binding": vint(&ef["binding"]),
                                        "vis": eval_stages(&ef["visibility"]),
                                        "vis_raw": if eval_stages(&ef["visibility"]).is_none() { ef["visibility"].clone() } else { Value::Null },
                                        "ty": binding_type(&ef["ty"]),
                                        "count": vpath(&ef["count"]).map(last_seg)})
                                })
                                .collect()
                        })
                        .unwrap_or_default();
                    let e = by_no.entry(no.to_string()).or_default();
                    e.insert("entries".into(), Value::Array(entries));
                    e.insert("label".into(), f["label"].clone());
                }
            }
            syn::Item::Impl(i) => {
                let name = toks(&i.self_ty);
                if let Some(tr) = &i.trait_ {
                    // impl SetBindGroup for wgpu::X<'_> { fn set_bind_group(..) { self.set_bind_group(index, bind_group, offsets); } }
                    let mut calls = vec![];
                    for ii in &i.items {
                        if let syn::ImplItem::Fn(f) = ii {
                            calls.push(json!({"fn": f.sig.ident.to_string(), "params": fn_params(&f.sig), "body": block_vals(&f.block)}));
                        }
                    }
                    set_impls.push(json!({"trait": path_str(&tr.1), "for": name.replace(' ', ""), "fns": calls}));
                } else if name.starts_with("BindGroups") {
                    for ii in &i.items {
                        if let syn::ImplItem::Fn(f) = ii {
                            if f.sig.ident == "set" {
                                bind_groups_struct["set_calls"] = Value::Array(set_calls(&block_vals(&f.block)));
                            }
                        }
                    }
                } else if let Some(no) = name.strip_prefix("BindGroup") {
                    let e = by_no.entry(no.to_string()).or_default();
                    for ii in &i.items {
                        if let syn::ImplItem::Fn(f) = ii {
                            let body = block_vals(&f.block);
                            match f.sig.ident.to_string().as_str() {
                                "get_bind_group_layout" => {
                                    let d = body.last().and_then(|s| s["args"].get(0)).and_then(vpath).map(|s| s.to_string());
                                    e.insert("get_layout_desc".into(), json!(d));
                                }
                                "from_bindings" => {
                                    let mut layout_desc = Value::Null;
                                    let mut bg = Value::Null;
                                    let mut layout_var = Value::Null;
                                    for s in &body {
                                        if let Some(init) = s.get("init") {
                                            if init.get("$method").and_then(|m| m.as_str()) == Some("create_bind_group_layout") {
                                                layout_desc = json!(init["args"].get(0).and_then(vpath));
                                                layout_var = s["$let"].clone();
                                            }
                                            if init.get("$method").and_then(|m| m.as_str()) == Some("create_bind_group") {
                                                bg = init["args"][0]["f"].clone();
                                            }
                                        }
                                    }
                                    // every `BindGroupEntry { .. }` literal of the function, wherever it is written (inline in the descriptor,
                                    // in a local array bound by `let`, in a helper expression): in source order
                                    fn entry_lits(v: &Value, acc: &mut Vec<Value>) {
                                        match v {
                                            Value::Object(m) => {
                                                if m.get("$struct").and_then(|p| p.as_str()).map(last_seg) == Some("BindGroupEntry") {
                                                    acc.push(v.clone());
                                                    return;
                                                }
                                                for (_, x) in m {
                                                    entry_lits(x, acc);
                                                }
                                            }
                                            Value::Array(a) => {
                                                for x in a {
                                                    entry_lits(x, acc);
                                                }
                                            }
                                            _ => {}
                                        }
                                    }
                                    let mut lits = vec![];
                                    for s in &body {
                                        entry_lits(s, &mut lits);
                                    }
                                    let found_entries = !lits.is_empty() || bg["entries"].as_array().map(|a| a.is_empty()).unwrap_or(false);
                                    let entries: Vec<Value> = Some(&lits)
                                        .map(|a| {
                                            a.iter()
                                                .map(|x| {
                                                    let ef = &x["f"];
                                                    let r = &ef["resource"];
                                                    let kind = r["$call"].get("$path").and_then(|p| p.as_str()).map(last_seg).map(|s| s.to_string());
                                                    let arg = r["args"].get(0).cloned().unwrap_or(Value::Null);
                                                    let field = arg.get("$field").and_then(|f| f.as_str()).map(|s| s.to_string());
                                                    let base = arg.get("base").and_then(vpath).map(|s| s.to_string());
                                                    json!({"binding": vint(&ef["binding"]), "kind": kind, "field": field, "base": base})
                                                })
                                                .collect()
                                        })
                                        .unwrap_or_default();
                                    let mut fb = json!({
                                        "params": fn_params(&f.sig),
                                        "layout_desc": layout_desc, "layout_var": layout_var,
                                        "bg_layout": vpath(&bg["layout"]),
                                        "label": bg["label"]});
                                    if found_entries {
                                        fb["entries"] = json!(entries);
                                    }
                                    e.insert("from_bindings".into(), fb);
                                }
                                "set" => {
                                    let call = body.last().cloned().unwrap_or(Value::Null);
                                    e.insert("set".into(), json!({"method": call["$method"], "recv": vpath(&call["recv"]),
                                        "index": call["args"].get(0).and_then(vint),
                                        "bg": call["args"].get(1).cloned(), "offsets": call["args"].get(2).cloned(),
                                        "n_stmts": body.len()}));
                                }
                                other => {
                                    e.insert(format!("fn_{other}"), json!(body));
                                }
                            }
                        }
                    }
                }
            }
            _ => {}
        }
    }
    // descriptors that are another group's descriptor: same entries, same label
    let aliases: Vec<(String, String)> = by_no
        .iter()
        .filter_map(|(no, m)| m.get("entries_alias_of").and_then(|o| o.as_str()).map(|o| (no.clone(), o.to_string())))
        .collect();
    for (no, other) in aliases {
        let src = by_no.get(&other).map(|m| (m.get("entries").cloned(), m.get("label").cloned()));
        if let (Some((Some(en), lb)), Some(m)) = (src, by_no.get_mut(&no)) {
            m.insert("entries".into(), en);
            if let Some(lb) = lb {
                m.insert("label".into(), lb);
            }
        }
    }
    for no in order {
        let mut m = by_no.remove(&no).unwrap_or_default();
        m.insert("no".into(), json!(no));
        groups.push(Value::Object(m));
    }
    for (no, mut m) in by_no {
        m.insert("no".into(), json!(no));
        m.insert("orphan".into(), json!(true));
        groups.push(Value::Object(m));
    }
}
