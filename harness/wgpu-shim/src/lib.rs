//! Recording stand-in for wgpu 24: same names, signatures and plain-data types (re-exported from
//! the real `wgpu-types`), but every device / pass call is appended to a thread-local log with its
//! full descriptor instead of touching a GPU.
use serde_json::{json, Value};
use std::borrow::Cow;
use std::cell::RefCell;
use std::collections::HashMap;

pub use wgpu_types::{
    BindGroupLayoutEntry, BindingType, BufferAddress, BufferBindingType, BufferSize, ColorTargetState, DynamicOffset,
    PushConstantRange, SamplerBindingType, ShaderStages, StorageTextureAccess, TextureFormat, TextureSampleType,
    TextureViewDimension, VertexAttribute, VertexFormat, VertexStepMode,
};

pub type Label<'a> = Option<&'a str>;

thread_local! {
    static LOG: RefCell<Vec<Value>> = const { RefCell::new(Vec::new()) };
    static NEXT: RefCell<u64> = const { RefCell::new(1) };
}
fn fresh() -> u64 {
    NEXT.with(|n| {
        let mut n = n.borrow_mut();
        *n += 1;
        *n
    })
}
fn log(v: Value) {
    LOG.with(|l| l.borrow_mut().push(v));
}
/// Drain the log of recorded calls.
pub fn take_log() -> Vec<Value> {
    LOG.with(|l| std::mem::take(&mut *l.borrow_mut()))
}

pub fn stages_json(s: ShaderStages) -> Value {
    let mut v = vec![];
    if s.contains(ShaderStages::VERTEX) {
        v.push("VERTEX");
    }
    if s.contains(ShaderStages::FRAGMENT) {
        v.push("FRAGMENT");
    }
    if s.contains(ShaderStages::COMPUTE) {
        v.push("COMPUTE");
    }
    json!(v)
}

pub fn binding_type_json(t: &BindingType) -> Value {
    match t {
        BindingType::Buffer { ty, has_dynamic_offset, min_binding_size } => {
            let (bty, ro) = match ty {
                BufferBindingType::Uniform => ("uniform", Value::Null),
                BufferBindingType::Storage { read_only } => ("storage", json!(read_only)),
            };
            json!({"k":"buffer","bty":bty,"ro":ro,"dyn":has_dynamic_offset,"min": min_binding_size.map(|m| m.get())})
        }
        BindingType::Sampler(s) => json!({"k":"sampler","ty":format!("{s:?}")}),
        BindingType::Texture { sample_type, view_dimension, multisampled } => {
            let sample = match sample_type {
                TextureSampleType::Float { filterable: true } => "float_filterable",
                TextureSampleType::Float { filterable: false } => "float",
                TextureSampleType::Depth => "depth",
                TextureSampleType::Sint => "sint",
                TextureSampleType::Uint => "uint",
            };
            json!({"k":"texture","sample":sample,"dim":format!("{view_dimension:?}"),"multi":multisampled})
        }
        BindingType::StorageTexture { access, format, view_dimension } => {
            json!({"k":"storage_texture","access":format!("{access:?}"),"format":format!("{format:?}"),"dim":format!("{view_dimension:?}")})
        }
        BindingType::AccelerationStructure => json!({"k":"acceleration_structure"}),
    }
}

pub fn bgl_entry_json(e: &BindGroupLayoutEntry) -> Value {
    json!({"binding": e.binding.to_string(), "vis": stages_json(e.visibility), "ty": binding_type_json(&e.ty), "count": e.count.map(|c| c.get())})
}

macro_rules! handle {
    ($name:ident) => {
        #[derive(Debug, Clone, PartialEq, Eq)]
        pub struct $name {
            pub id: u64,
        }
        impl $name {
            pub fn new_for_test() -> Self {
                Self { id: fresh() }
            }
        }
    };
}
handle!(Buffer);
handle!(TextureView);
handle!(Sampler);
handle!(ShaderModule);
handle!(BindGroupLayout);
handle!(BindGroup);
handle!(PipelineLayout);
handle!(ComputePipeline);
handle!(PipelineCache);

#[derive(Debug)]
pub struct Device {
    pub id: u64,
}
impl Device {
    pub fn new_for_test() -> Self {
        Device { id: fresh() }
    }
    pub fn create_shader_module(&self, desc: ShaderModuleDescriptor<'_>) -> ShaderModule {
        let m = ShaderModule { id: fresh() };
        let src = match &desc.source {
            ShaderSource::Wgsl(s) => s.to_string(),
            ShaderSource::Dummy(_) => String::new(),
        };
        log(json!({"ev":"rt.create_shader_module","id":m.id,"label":desc.label,"source":src}));
        m
    }
    pub fn create_bind_group_layout(&self, desc: &BindGroupLayoutDescriptor<'_>) -> BindGroupLayout {
        let l = BindGroupLayout { id: fresh() };
        log(json!({"ev":"rt.create_bgl","id":l.id,"label":desc.label,"entries":desc.entries.iter().map(bgl_entry_json).collect::<Vec<_>>()}));
        l
    }
    pub fn create_bind_group(&self, desc: &BindGroupDescriptor<'_>) -> BindGroup {
        let g = BindGroup { id: fresh() };
        let entries: Vec<Value> = desc
            .entries
            .iter()
            .map(|e| {
                let res = match &e.resource {
                    BindingResource::Buffer(b) => json!({"k":"buffer","id":b.buffer.id,"offset":b.offset.to_string(),"size":b.size.map(|s| s.get().to_string())}),
                    BindingResource::TextureView(t) => json!({"k":"texture","id":t.id}),
                    BindingResource::Sampler(s) => json!({"k":"sampler","id":s.id}),
                    BindingResource::BufferArray(_) => json!({"k":"buffer_array"}),
                    BindingResource::TextureViewArray(_) => json!({"k":"texture_array"}),
                    BindingResource::SamplerArray(_) => json!({"k":"sampler_array"}),
                };
                json!({"binding": e.binding.to_string(), "res": res})
            })
            .collect();
        log(json!({"ev":"rt.create_bind_group","id":g.id,"label":desc.label,"layout":desc.layout.id,"entries":entries}));
        g
    }
    pub fn create_pipeline_layout(&self, desc: &PipelineLayoutDescriptor<'_>) -> PipelineLayout {
        let l = PipelineLayout { id: fresh() };
        log(json!({"ev":"rt.create_pipeline_layout","id":l.id,"label":desc.label,
            "bgls":desc.bind_group_layouts.iter().map(|b| b.id).collect::<Vec<_>>(),
            "push_ranges":desc.push_constant_ranges.iter().map(|r| json!({"stages":stages_json(r.stages),"start":r.range.start.to_string(),"end":r.range.end.to_string()})).collect::<Vec<_>>()}));
        l
    }
    pub fn create_compute_pipeline(&self, desc: &ComputePipelineDescriptor<'_>) -> ComputePipeline {
        let p = ComputePipeline { id: fresh() };
        let mut consts: Vec<(String, f64)> = desc.compilation_options.constants.iter().map(|(k, v)| (k.clone(), *v)).collect();
        consts.sort_by(|a, b| a.0.cmp(&b.0));
        log(json!({"ev":"rt.create_compute_pipeline","id":p.id,"label":desc.label,"layout":desc.layout.map(|l| l.id),
            "module":desc.module.id,"entry_point":desc.entry_point,
            "constants":consts.iter().map(|(k, v)| json!({"key":k,"bits":format!("{:016x}", v.to_bits())})).collect::<Vec<_>>(),
            "zero_init":desc.compilation_options.zero_initialize_workgroup_memory,"cache":desc.cache.map(|c| c.id)}));
        p
    }
}

#[derive(Debug, Clone)]
pub struct ShaderModuleDescriptor<'a> {
    pub label: Label<'a>,
    pub source: ShaderSource<'a>,
}
#[derive(Debug, Clone)]
#[non_exhaustive]
pub enum ShaderSource<'a> {
    Wgsl(Cow<'a, str>),
    #[doc(hidden)]
    Dummy(std::marker::PhantomData<&'a ()>),
}

#[derive(Clone, Debug)]
pub struct BindGroupLayoutDescriptor<'a> {
    pub label: Label<'a>,
    pub entries: &'a [BindGroupLayoutEntry],
}

#[derive(Clone, Debug)]
pub struct BufferBinding<'a> {
    pub buffer: &'a Buffer,
    pub offset: BufferAddress,
    pub size: Option<BufferSize>,
}
#[derive(Clone, Debug)]
#[non_exhaustive]
pub enum BindingResource<'a> {
    Buffer(BufferBinding<'a>),
    BufferArray(&'a [BufferBinding<'a>]),
    Sampler(&'a Sampler),
    SamplerArray(&'a [&'a Sampler]),
    TextureView(&'a TextureView),
    TextureViewArray(&'a [&'a TextureView]),
}
#[derive(Clone, Debug)]
pub struct BindGroupEntry<'a> {
    pub binding: u32,
    pub resource: BindingResource<'a>,
}
#[derive(Clone, Debug)]
pub struct BindGroupDescriptor<'a> {
    pub label: Label<'a>,
    pub layout: &'a BindGroupLayout,
    pub entries: &'a [BindGroupEntry<'a>],
}
#[derive(Clone, Debug, Default)]
pub struct PipelineLayoutDescriptor<'a> {
    pub label: Label<'a>,
    pub bind_group_layouts: &'a [&'a BindGroupLayout],
    pub push_constant_ranges: &'a [PushConstantRange],
}

#[derive(Clone, Debug)]
pub struct PipelineCompilationOptions<'a> {
    pub constants: &'a HashMap<String, f64>,
    pub zero_initialize_workgroup_memory: bool,
}
impl Default for PipelineCompilationOptions<'_> {
    fn default() -> Self {
        static EMPTY: std::sync::OnceLock<HashMap<String, f64>> = std::sync::OnceLock::new();
        Self {
            constants: EMPTY.get_or_init(HashMap::new),
            zero_initialize_workgroup_memory: true,
        }
    }
}
#[derive(Clone, Debug)]
pub struct ComputePipelineDescriptor<'a> {
    pub label: Label<'a>,
    pub layout: Option<&'a PipelineLayout>,
    pub module: &'a ShaderModule,
    pub entry_point: Option<&'a str>,
    pub compilation_options: PipelineCompilationOptions<'a>,
    pub cache: Option<&'a PipelineCache>,
}

#[derive(Clone, Debug, Hash, Eq, PartialEq)]
pub struct VertexBufferLayout<'a> {
    pub array_stride: BufferAddress,
    pub step_mode: VertexStepMode,
    pub attributes: &'a [VertexAttribute],
}
#[derive(Clone, Debug)]
pub struct VertexState<'a> {
    pub module: &'a ShaderModule,
    pub entry_point: Option<&'a str>,
    pub compilation_options: PipelineCompilationOptions<'a>,
    pub buffers: &'a [VertexBufferLayout<'a>],
}
#[derive(Clone, Debug)]
pub struct FragmentState<'a> {
    pub module: &'a ShaderModule,
    pub entry_point: Option<&'a str>,
    pub compilation_options: PipelineCompilationOptions<'a>,
    pub targets: &'a [Option<ColorTargetState>],
}

macro_rules! pass {
    ($name:ident, $kind:expr) => {
        #[derive(Debug)]
        pub struct $name<'a> {
            pub id: u64,
            _p: std::marker::PhantomData<&'a ()>,
        }
        impl $name<'_> {
            pub fn new_for_test() -> Self {
                Self { id: fresh(), _p: std::marker::PhantomData }
            }
            pub fn set_bind_group<'a, BG>(&mut self, index: u32, bind_group: BG, offsets: &[DynamicOffset])
            where
                Option<&'a BindGroup>: From<BG>,
            {
                let bg: Option<&BindGroup> = bind_group.into();
                log(json!({"ev":"rt.set_bind_group","pass":$kind,"pass_id":self.id,"index":index.to_string(),"bg":bg.map(|b| b.id),"offsets":offsets.len()}));
            }
        }
    };
}
pass!(ComputePass, "compute");
pass!(RenderPass, "render");
pass!(RenderBundleEncoder, "bundle");
