"""Compile channel: generated modules become sub-modules of a batch crate that is type-checked against the
REAL wgpu 24 / bytemuck / encase / glam / serde ("real" flavour, cargo check) or built against the recording
shim and executed with per-module probes ("shim" flavour). rustc diagnostics are attributed to the module or
probe file they point into."""
import json, os, re, shutil, subprocess, time
from engine import ROOT, WORK, HARNESS, ToolError, log, run

BATCHES = os.path.join(WORK, "batches")

CARGO_REAL = """[package]
name = "batch"
version = "0.0.0"
edition = "2021"

[workspace]

[dependencies]
wgpu = "24.0.0"
bytemuck = { version = "1.19", features = ["derive", "min_const_generics"] }
encase = { version = "0.10.0", features = ["glam"] }
glam = { version = "0.29.1", features = ["bytemuck", "serde"] }
serde = { version = "1", features = ["derive"] }
serde_json = "1"
nalgebra = { path = "%(harness)s/nalgebra-stub" }
naga = { version = "24.0.0", features = ["wgsl-in", "glsl-out"] }

[profile.dev]
debug = 0
opt-level = 0
"""

CARGO_SHIM = CARGO_REAL.replace('wgpu = "24.0.0"', 'wgpu = { package = "wgpu-shim", path = "%(harness)s/wgpu-shim" }')

from probes import SUPPORT
MAIN_HEAD = """#![allow(warnings)]
use std::io::Write;
pub mod support {""" + SUPPORT + """}
fn emit(case: &str, probe: &str, r: std::thread::Result<Vec<serde_json::Value>>) {
    let out = std::io::stdout();
    let mut out = out.lock();
    match r {
        Ok(v) => {
            for mut e in v {
                e["case"] = serde_json::json!(case);
                e["probe"] = serde_json::json!(probe);
                writeln!(out, "{}", e).unwrap();
            }
        }
        Err(p) => {
            let msg = if let Some(s) = p.downcast_ref::<&str>() { s.to_string() } else if let Some(s) = p.downcast_ref::<String>() { s.clone() } else { "?".into() };
            writeln!(out, "{}", serde_json::json!({"ev": "probe.panic", "case": case, "probe": probe, "msg": msg})).unwrap();
        }
    }
}
"""


REAL_SUPPORT = r"""
pub mod realdev {
    use wgpu::hal;
    use std::num::NonZeroU64;
    pub fn limits() -> wgpu::Limits {
        let mut l = wgpu::Limits::default();
        l.max_bind_groups = 8;
        l.max_push_constant_size = 256;
        l.max_vertex_attributes = 32;
        l
    }
    /// A real wgpu::Device (full wgpu-core validation) on wgpu-hal's no-op backend.
    pub fn noop_device(features: wgpu::Features) -> wgpu::Device {
        unsafe {
            let instance = wgpu::Instance::from_hal::<hal::api::Empty>(hal::empty::Context);
            let adapter = instance.create_adapter_from_hal::<hal::api::Empty>(hal::ExposedAdapter {
                adapter: hal::empty::Context,
                info: wgpu::AdapterInfo { name: "noop".into(), vendor: 0, device: 0, device_type: wgpu::DeviceType::Other, driver: String::new(), driver_info: String::new(), backend: wgpu::Backend::Empty },
                features: wgpu::Features::all(),
                capabilities: hal::Capabilities {
                    limits: limits(),
                    alignments: hal::Alignments { buffer_copy_offset: NonZeroU64::new(4).unwrap(), buffer_copy_pitch: NonZeroU64::new(4).unwrap(), uniform_bounds_check_alignment: NonZeroU64::new(4).unwrap(), raw_tlas_instance_size: 64, ray_tracing_scratch_buffer_alignment: 256 },
                    downlevel: wgpu::DownlevelCapabilities::default(),
                },
            });
            let (device, _queue) = adapter
                .create_device_from_hal::<hal::api::Empty>(hal::OpenDevice { device: hal::empty::Context, queue: hal::empty::Context },
                    &wgpu::DeviceDescriptor { label: None, required_features: features, required_limits: limits(), memory_hints: Default::default() }, None)
                .expect("no-op device");
            device
        }
    }
    fn block_on<F: std::future::Future>(f: F) -> F::Output {
        let mut f = std::pin::pin!(f);
        let waker = std::task::Waker::noop();
        let mut cx = std::task::Context::from_waker(&waker);
        loop {
            if let std::task::Poll::Ready(v) = f.as_mut().poll(&mut cx) { return v; }
        }
    }
    /// run `f` inside a validation error scope; None = accepted by wgpu's validation
    pub fn scoped<R>(device: &wgpu::Device, f: impl FnOnce() -> R) -> Option<String> {
        device.push_error_scope(wgpu::ErrorFilter::Validation);
        let _r = f();
        block_on(device.pop_error_scope()).map(|e| format!("{e}"))
    }
}
"""


class Module:
    def __init__(self, idx, case_id, rs, wgsl):
        self.idx = idx
        self.case_id = case_id
        self.rs = rs
        self.wgsl = wgsl
        self.probes = {}
        self.errors = []          # diagnostics attributed to the module itself
        self.probe_errors = {}    # probe name -> diagnostics
        self.dropped = False


class Batch:
    def __init__(self, tag, flavor):
        self.tag = tag
        self.flavor = flavor
        self.dir = os.path.join(BATCHES, tag)
        self.mods = []
        shutil.rmtree(self.dir, ignore_errors=True)
        os.makedirs(os.path.join(self.dir, "src", "m"))
        os.makedirs(os.path.join(self.dir, "src", "p"))
        os.makedirs(os.path.join(self.dir, ".cargo"))
        tmpl = CARGO_REAL if flavor in ("real", "realrun") else CARGO_SHIM
        open(os.path.join(self.dir, "Cargo.toml"), "w").write(tmpl % {"harness": HARNESS})
        shutil.copy(os.path.join(HARNESS, "Cargo.lock"), os.path.join(self.dir, "Cargo.lock"))
        open(os.path.join(self.dir, ".cargo", "config.toml"), "w").write(
            '[net]\noffline = true\n\n[build]\ntarget-dir = "%s"\n' % os.path.join(WORK, "target-batch-" + ("real" if flavor == "realrun" else flavor)))

    def add(self, case_id, rs, wgsl, probes=None):
        m = Module(len(self.mods), case_id, rs, wgsl)
        m.probes = dict(probes or {})
        self.mods.append(m)
        return m

    def _write(self):
        main = [MAIN_HEAD + (REAL_SUPPORT if self.flavor == "realrun" else "")]
        calls = []
        for m in self.mods:
            if m.dropped:
                continue
            open(os.path.join(self.dir, "src", "m", "m%d.rs" % m.idx), "w", newline="", encoding="utf-8").write(m.rs)
            open(os.path.join(self.dir, "src", "m", "m%d.wgsl" % m.idx), "w", newline="", encoding="utf-8").write(m.wgsl)
            for rel, text in getattr(m, "extra_files", {}).items():
                fp = os.path.join(self.dir, "src", "m", rel)
                os.makedirs(os.path.dirname(fp), exist_ok=True)
                open(fp, "w", newline="", encoding="utf-8").write(text)
            main.append('#[path = "m/m%d.rs"] pub mod m%d;' % (m.idx, m.idx))
            for pn, src in m.probes.items():
                if pn in m.probe_errors:
                    continue
                open(os.path.join(self.dir, "src", "p", "m%d_%s.rs" % (m.idx, pn)), "w").write("use crate::m%d as m;\n" % m.idx + src)
                main.append('#[path = "p/m%d_%s.rs"] mod p_m%d_%s;' % (m.idx, pn, m.idx, pn))
                calls.append('    emit(%s, "%s", std::panic::catch_unwind(|| p_m%d_%s::run()));' % (json.dumps(m.case_id), pn, m.idx, pn))
        main.append("fn main() {\n    std::panic::set_hook(Box::new(|_| {}));\n" + "\n".join(calls) + "\n}\n")
        open(os.path.join(self.dir, "src", "main.rs"), "w").write("\n".join(main))

    def _cargo(self, sub):
        env = dict(os.environ)
        env["CARGO_NET_OFFLINE"] = "true"
        p = subprocess.run(["cargo", sub, "--message-format=json", "--quiet"], cwd=self.dir, env=env,
                           stdout=subprocess.PIPE, stderr=subprocess.PIPE, text=True, errors="replace", timeout=3000)
        diags = []
        for line in p.stdout.splitlines():
            if not line.startswith("{"):
                continue
            try:
                d = json.loads(line)
            except Exception:
                continue
            if d.get("reason") == "compiler-message" and d["message"].get("level") == "error":
                diags.append(d["message"])
        return p.returncode, diags, p.stderr

    @staticmethod
    def _files_of(msg):
        files = []

        def walk(m):
            for s in m.get("spans", []):
                files.append(s.get("file_name", ""))
                e = s.get("expansion")
                while e:
                    files.append(e["span"].get("file_name", ""))
                    e = e["span"].get("expansion")
            for c in m.get("children", []):
                walk(c)
        walk(msg)
        return files

    def build(self):
        """iterate: compile, attribute errors, drop failing modules / probes, until the rest compiles"""
        sub = "check" if self.flavor == "real" else "build"
        t0 = time.time()
        for it in range(8):
            self._write()
            rc, diags, stderr = self._cargo(sub)
            if rc == 0:
                log("[batch %s] %s ok after %d iteration(s): %d modules, %.1fs" % (self.tag, sub, it + 1, len([m for m in self.mods if not m.dropped]), time.time() - t0))
                return
            if not diags:
                log(stderr[-3000:])
                raise ToolError("cargo %s failed without diagnostics in batch %s" % (sub, self.tag))
            progress = False
            for d in diags:
                files = self._files_of(d)
                hit = None
                for f in files:
                    mm = re.search(r"src/p/m(\d+)_(\w+)\.rs", f)
                    if mm:
                        hit = ("probe", int(mm.group(1)), mm.group(2))
                        break
                if hit is None:
                    for f in files:
                        mm = re.search(r"src/m/m(\d+)\.rs", f)
                        if mm:
                            hit = ("mod", int(mm.group(1)), None)
                            break
                code = (d.get("code") or {}).get("code")
                lines = []

                def walk_lines(mm):
                    for sp in mm.get("spans", []):
                        if re.search(r"src/m/m\d+\.rs", sp.get("file_name", "")):
                            lines.append(sp.get("line_start", 0))
                        e2 = sp.get("expansion")
                        while e2:
                            if re.search(r"src/m/m\d+\.rs", e2["span"].get("file_name", "")):
                                lines.append(e2["span"].get("line_start", 0))
                            e2 = e2["span"].get("expansion")
                    for ch in mm.get("children", []):
                        walk_lines(ch)
                walk_lines(d)
                entry = {"code": code, "message": d.get("message", ""), "rendered": (d.get("rendered") or "")[:1500], "lines": lines}
                if hit is None:
                    log(json.dumps(entry)[:2000])
                    raise ToolError("unattributable rustc error in batch %s" % self.tag)
                kind, idx, pn = hit
                m = self.mods[idx]
                if kind == "probe":
                    m.probe_errors.setdefault(pn, []).append(entry)
                    progress = True
                else:
                    m.errors.append(entry)
                    if not m.dropped:
                        m.dropped = True
                        progress = True
            if not progress:
                raise ToolError("batch %s: no progress removing failing modules" % self.tag)
        raise ToolError("batch %s did not converge" % self.tag)

    def run(self, timeout=600):
        if self.flavor not in ("shim", "realrun"):
            return []
        exe = os.path.join(WORK, "target-batch-" + ("real" if self.flavor == "realrun" else "shim"), "debug", "batch")
        p = subprocess.run([exe], cwd=self.dir, stdout=subprocess.PIPE, stderr=subprocess.PIPE, text=True, errors="replace", timeout=timeout)
        if p.returncode != 0:
            log(p.stderr[-2000:])
            raise ToolError("batch binary failed rc=%d" % p.returncode)
        return [json.loads(l) for l in p.stdout.splitlines() if l.startswith("{")]


def classify(err):
    """class of a rustc error inside a generated module"""
    msg = err.get("message", "") + " " + err.get("rendered", "")
    code = err.get("code")
    if "does not match WGSL" in msg:
        return "LayoutAssert"
    if code == "E0512" or "cannot transmute between types of different sizes" in msg or "derive(Pod) was applied to a type with padding" in msg:
        return "PodPadding"
    return "Other:%s" % (code or "?")
