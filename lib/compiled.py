"""Drive cases through the generator, compile the returned modules in batch crates, run probes, and fold
the compiler's answer and the probe observations into each case's `obs` record for TLC."""
import json, os, time
from engine import *
import batch as B
import probes as P


def make_probes(case, obs, want, shim):
    out = obs.get("out", {})
    pr = {}
    if "layout" in want:
        pr["layout"] = P.probe_layout(out)
    if "consts" in want:
        pr["consts"] = P.probe_consts(out)
    if "source" in want and out.get("source", {}).get("kind") == "embedded":
        pr["source"] = P.probe_source(shim)
    if shim and "bindgroups" in want:
        x = P.probe_bindgroup_ops(out, case["ops"]) if case.get("ops") else P.probe_bindgroups(out)
        if x:
            pr["bindgroups"] = x
    if shim and "pipeline_layout" in want:
        pr["pipeline_layout"] = P.probe_pipeline_layout(out)
    if "overrides" in want:
        x = P.probe_overrides(out)
        if x:
            pr["overrides"] = x
    if "entries" in want:
        pr["entries"] = P.probe_entries(out, shim)
    if "impls" in want:
        pr["impls"] = P.probe_impls(out)
    if "wgpu" in want:
        pr["wgpu"] = P.probe_wgpu_validate(out)
    if "encase" in want and case.get("S") and case.get("opts", {}).get("enc"):
        S = case["S"]
        emitted = [st["name"] for st in out.get("structs", []) if any("encase::ShaderType" in d for d in st.get("derives", []))]
        def scalars(t):
            if t["k"] in ("scalar", "atomic", "vec", "mat"):
                return {t["s"]}
            if t["k"] in ("array", "rtarray"):
                return scalars(t["e"])
            if t["k"] == "struct":
                return set().union(*[scalars(m["ty"]) for d in S["structs"] if d["name"] == t["name"] for m in d["members"]] or [set()])
            return set()
        def maxlen(t):
            if t["k"] == "array":
                return max(t["n"], maxlen(t["e"]))
            if t["k"] == "rtarray":
                return maxlen(t["e"])
            if t["k"] == "struct":
                return max([maxlen(m["ty"]) for d in S["structs"] if d["name"] == t["name"] for m in d["members"]] or [0])
            return 0
        # structs with members encase cannot hold at all (bool) are outside C10's domain: no probe is generated for them;
        # neither for arrays of thousands of elements (one sentinel per component): those are judged on their field types only
        names = [n for n in emitted if any(d["name"] == n for d in S["structs"]) and scalars({"k": "struct", "name": n}) <= set(P.SENT) and maxlen({"k": "struct", "name": n}) <= 512]
        uni = set()
        for g in S["globals"]:
            if g["space"] == "uniform" and g["ty"].get("k") == "struct":
                uni.add(g["ty"]["name"])
        if names:
            pr["encase"] = P.probe_encase(S, names, uni)
    return pr


def run_compiled(cases, tag, flavor, want, batch_size=150, keep=None):
    """returns path of a trace whose obs records carry `compile` and `rt`"""
    shim = flavor == "shim"
    outdir = os.path.join(WORK, "runs", tag + "_out")
    trace = run_vdriver(cases, tag, keep=keep, outdir=outdir)
    evs = [json.loads(l) for l in open(trace)]
    obs_by_id = {e["id"]: e for e in evs if e["ev"] == "obs"}
    by_id = {c["id"]: c for c in cases}
    # "nocompile": the call is part of the history of the driver process only (e.g. an include path whose file is deliberately absent)
    ok_ids = [c["id"] for c in cases if obs_by_id.get(c["id"], {}).get("ret", {}).get("kind") == "ok" and not c.get("nocompile")]
    t0 = time.time()
    nb = 0
    for i in range(0, len(ok_ids), batch_size):
        chunk = ok_ids[i:i + batch_size]
        b = B.Batch("%s_%d" % (tag, nb), flavor)
        nb += 1
        mods = {}
        for cid in chunk:
            rs = open(os.path.join(outdir, cid + ".rs"), newline="", encoding="utf-8").read()
            wgsl = open(os.path.join(outdir, cid + ".wgsl"), newline="", encoding="utf-8").read()
            o = obs_by_id[cid]
            if not o.get("parsed", True) and "out" not in o:
                # not even parsable by syn: cannot be a module file; record as a compile failure
                o["compile"] = {"outcome": "reject", "classes": ["Other:unparsable"], "errors": [o.get("parse_err", "")[:300]], "probe_fail": []}
                continue
            rawp = os.path.join(outdir, cid + ".out.json")
            raw_out = json.load(open(rawp)) if os.path.exists(rawp) else o.get("out", {})
            pr = make_probes(by_id[cid], {"out": raw_out}, want, shim)
            m = b.add(cid, rs, wgsl, pr)
            for pn in list(m.probes):
                m.probes[pn] = m.probes[pn].replace("__WGSL__", "m%d.wgsl" % m.idx)
            inc = by_id[cid].get("opts", {}).get("include")
            # the include variant: the file the generated `include_str!` names is put where the documentation says it has to be
            if inc and not inc.startswith(("/", "~")) and ".." not in inc and "\\" not in inc and all(0x20 <= ord(ch) < 0x7f for ch in inc) and inc.endswith(".wgsl"):
                m.extra_files = {inc: wgsl}
            mods[cid] = m
        b.build()
        rt = b.run()
        rt_by_case = {}
        for e in rt:
            rt_by_case.setdefault(e.get("case"), []).append(e)
        for cid, m in mods.items():
            o = obs_by_id[cid]
            import re as _re
            classes = sorted(set(B.classify(e) for e in m.errors))
            alltext = " ".join(e["message"] + " " + e.get("rendered", "") for e in m.errors)
            # the item each diagnostic sits in (nearest enclosing `pub fn / struct / const / mod / impl` header above the reported line): a
            # mismatch inside the body of `vs_main_entry` is about the entry helper even if the message only shows an array expression
            _lines = m.rs.splitlines()
            for e in m.errors:
                for ln in e.get("lines", []):
                    for k in range(min(ln, len(_lines)) - 1, -1, -1):
                        hm = _re.match(r"\s*(?:pub(?:\([a-z]+\))? )?(?:const )?(?:fn|struct|const|mod|impl(?:<[^>]*>)?) ([\w:<>' ,]+)", _lines[k], _re.UNICODE)
                        if hm:
                            alltext += " " + hm.group(0)
                            break
            flags = [t for t, rx in (("entry", r"ENTRY_|_entry\b|WORKGROUP_SIZE|VertexEntry|FragmentEntry|_pipeline\b"), ("bindgroup", r"BindGroup|bind_groups|LAYOUT_DESCRIPTOR"),
                                     ("override", r"OverrideConstants|\bentries\b"), ("vertex", r"VERTEX_ATTRIBUTES|vertex_buffer_layout"), ("const", r"\bconst\b")) if _re.search(rx, alltext)]
            # structs a layout / padding rejection points at: by name in the assertion text, else by source line
            rejected = set()
            src_lines = m.rs.splitlines()
            for e in m.errors:
                if B.classify(e) not in ("LayoutAssert", "PodPadding"):
                    continue
                mm = _re.search(r"(?:offset of (\w+)\.|size of (\w+) does)", e["message"] + " " + e.get("rendered", ""), _re.UNICODE)
                if mm:
                    rejected.add(mm.group(1) or mm.group(2))
                    continue
                for ln in e.get("lines", []):
                    for k in range(max(0, ln - 1), min(len(src_lines), ln + 6)):
                        sm = _re.search(r"pub struct (\w+)", src_lines[k], _re.UNICODE)
                        if sm:
                            rejected.add(sm.group(1))
                            break
            o["compile"] = {"outcome": "reject" if m.errors else "ok", "classes": classes, "flags": flags, "rejected_structs": sorted(rejected),
                            "errors": [e["message"][:300] for e in m.errors[:4]],
                            "probe_fail": [{"probe": pn, "code": es[0].get("code") or "?", "message": es[0]["message"][:300]} for pn, es in m.probe_errors.items()]}
            o["rt"] = rt_by_case.get(cid, [])
            for e in o["rt"]:
                if e.get("ev") == "wgpu.result" and e.get("err"):
                    if "TEXTURE_ADAPTER_SPECIFIC_FORMAT_FEATURES" in e["err"] and e.get("device") == "std":
                        # the colour-target device lacks the feature by construction: outside the domain
                        e["ev"] = "wgpu.skipped"
                        e["skipped"] = e.pop("err")[:200]
                        continue
                    e["binding_related"] = bool(_re.search(r"(?i)binding|bind group|visib|texture class|address space|sampler|filter|storage class|not available in the pipeline layout", e["err"]))
                    e["vertex_related"] = bool(_re.search(r"(?i)vertex|attribute|stride|location|input", e["err"])) and not e["binding_related"]
                    e["err"] = e["err"][:400]
    log("[compile] %d modules in %d %s batch(es), %.1fs" % (len(ok_ids), nb, flavor, time.time() - t0))
    tp = trace + ".compiled"
    with open(tp, "w") as f:
        for e in evs:
            f.write(json.dumps(tlc_safe(e)) + "\n")
    return tp
