"""Shared machinery for /verif/bin/check: building the harness, running TLC (model checking,
case export, trace validation), driving the real generator, known findings, evidence."""
import json, os, re, subprocess, sys, time, hashlib, shutil, random

ROOT = os.path.dirname(os.path.dirname(os.path.abspath(__file__)))
SPEC = os.path.join(ROOT, "spec")
WORK = os.path.join(ROOT, ".work")
HARNESS = os.path.join(ROOT, "harness")
VDRIVER = os.path.join(WORK, "target", "debug", "vdriver")
REPLAYS = os.path.join(ROOT, "replays")
EVIDENCE = os.path.join(ROOT, "evidence")


class ToolError(Exception):
    pass


def log(*a):
    print(*a, file=sys.stderr, flush=True)


def run(cmd, cwd=None, env=None, timeout=None, capture=True):
    e = dict(os.environ)
    e["CARGO_NET_OFFLINE"] = "true"
    if env:
        e.update(env)
    p = subprocess.run(cmd, cwd=cwd, env=e, timeout=timeout, stdout=subprocess.PIPE if capture else None,
                       stderr=subprocess.STDOUT if capture else None, text=True, errors="replace")
    return p.returncode, (p.stdout or "")


_built = False


def build_harness():
    """(Re)build the driver against /repo's current working tree (path dependency, hooks on)."""
    global _built
    if _built:
        return
    t0 = time.time()
    rc, out = run(["cargo", "build", "--quiet"], cwd=HARNESS, timeout=1800)
    if rc != 0:
        log(out[-4000:])
        raise ToolError("harness build failed (does /repo still compile with --features verif?)")
    _built = True
    log("[build] harness built in %.1fs" % (time.time() - t0))


def tlc_cmd(module, cfg, workers, metadir, extra=None):
    cmd = ["timeout", "3000", "tlc", "-workers", str(workers), "-metadir", metadir, "-cleanup",
           "-noGenerateSpecTE", "-config", cfg]
    if extra:
        cmd += extra
    cmd.append(module)
    return cmd


class McResult:
    def __init__(self):
        self.states = 0
        self.distinct = 0
        self.cases = []
        self.ok = False
        self.violated = None
        self.out = ""
        self.wall = 0.0
        self.init_states = 0


def run_mc(module, cfg, workers=8, expect_violation=False, consts=None, tag=None):
    """Run a bounded model-checking configuration. consts: dict name->TLA text overriding the cfg."""
    os.makedirs(os.path.join(WORK, "tlc"), exist_ok=True)
    tag = tag or (module.replace(".tla", "") + "_" + os.path.basename(cfg).replace(".cfg", ""))
    cfg_path = os.path.join(SPEC, cfg)
    if consts:
        txt = open(cfg_path).read()
        for k, v in consts.items():
            txt, n = re.subn(r"\b%s\s*=\s*(\{[^}]*\}|\"[^\"]*\"|\S+)" % re.escape(k), "%s = %s" % (k, v), txt, count=1)
            if n != 1:
                raise ToolError("constant %s not found in %s" % (k, cfg))
        cfg_path = os.path.join(WORK, "tlc", tag + ".cfg")
        open(cfg_path, "w").write(txt)
    metadir = os.path.join(WORK, "tlc", tag)
    shutil.rmtree(metadir, ignore_errors=True)
    t0 = time.time()
    rc, out = run(tlc_cmd(module, cfg_path, workers, metadir), cwd=SPEC, timeout=3200,
                  env={"JAVA_TOOL_OPTIONS": "-Xss512m"})
    r = McResult()
    r.wall = time.time() - t0
    r.out = out
    for line in out.splitlines():
        if line.startswith('"CASE '):
            try:
                r.cases.append(json.loads(json.loads(line)[5:]))
            except Exception as e:
                raise ToolError("bad CASE line from TLC: %s (%s)" % (line[:200], e))
    m = re.search(r"(\d+) states generated, (\d+) distinct states found", out)
    if m:
        r.states = int(m.group(1))
        r.distinct = int(m.group(2))
    m = re.search(r"Finished computing initial states: (\d+) distinct", out)
    if m:
        r.init_states = int(m.group(1))
    m = re.search(r"Error: Invariant (\w+) is violated", out)
    if m:
        r.violated = m.group(1)
    if re.search(r"Error: Temporal properties were violated|Error: Deadlock reached", out):
        r.violated = r.violated or "temporal/deadlock"
    r.ok = "Model checking completed. No error has been found." in out
    shutil.rmtree(metadir, ignore_errors=True)
    if expect_violation:
        if not r.violated:
            log(out[-3000:])
            raise ToolError("self-test: mutant configuration %s of %s was NOT rejected by TLC" % (cfg, module))
    else:
        if not r.ok:
            log("\n".join(l for l in out.splitlines() if not l.startswith('"CASE'))[-4000:])
            raise ToolError("model checking of %s with %s failed (spec-level violation or TLC error)" % (module, cfg))
    return r


def run_tlapm(module, timeout=600):
    """TLAPS proof of unbounded lemmas (spec/proofs); the fingerprint cache is kept out of the tree"""
    import re
    cache = os.path.join(WORK, "tlapm-cache")
    shutil.rmtree(cache, ignore_errors=True)
    os.makedirs(cache, exist_ok=True)
    t0 = time.time()
    rc, out = run(["timeout", str(timeout), "tlapm", "--threads", "4", "--cache-dir", cache, module], cwd=os.path.join(SPEC, "proofs"), timeout=timeout + 60)
    shutil.rmtree(cache, ignore_errors=True)
    m = re.search(r"All (\d+) obligations? proved", out)
    if not m:
        log(out[-3000:])
        raise ToolError("TLAPS did not prove every obligation of proofs/%s" % module)
    return {"module": "proofs/" + module, "prover": "tlapm", "obligations": int(m.group(1)), "discharged": int(m.group(1)), "wall_s": round(time.time() - t0, 1)}


def run_apalache(module, inv, length, timeout=900):
    """bounded symbolic check with Apalache (integers are symbolic: every value, not an enumerated few)"""
    outdir = os.path.join(WORK, "apalache")
    os.makedirs(outdir, exist_ok=True)
    t0 = time.time()
    rc, out = run(["timeout", str(timeout), "apalache-mc", "check", "--inv=" + inv, "--length=%d" % length, "--out-dir=" + outdir, "--run-dir=" + os.path.join(outdir, "run"), module],
                  cwd=os.path.join(SPEC, "apalache"), timeout=timeout + 60)
    shutil.rmtree(outdir, ignore_errors=True)
    ok = "The outcome is: NoError" in out
    if not ok:
        log(out[-3000:])
        raise ToolError("Apalache did not confirm %s of %s" % (inv, module))
    return {"module": "apalache/" + module, "invariant": inv, "length": length, "outcome": "NoError", "wall_s": round(time.time() - t0, 1)}


def build_script_env():
    """The generator is documented to run in a build script: cargo gives that process these variables (an old `rust-version`
    on purpose). The scrubbed-environment process of C18 runs without any of them."""
    out = os.path.join(WORK, "build_script", "out")
    os.makedirs(out, exist_ok=True)
    t = "x86_64-unknown-linux-gnu"
    return {"OUT_DIR": out, "CARGO_MANIFEST_DIR": os.path.dirname(out), "CARGO_PKG_NAME": "shader_consumer", "CARGO_PKG_VERSION": "0.3.1", "CARGO_PKG_RUST_VERSION": "1.64",
            "CARGO_PKG_AUTHORS": "", "CARGO_CRATE_NAME": "build_script_build", "TARGET": t, "HOST": t, "PROFILE": "debug", "OPT_LEVEL": "0", "DEBUG": "true", "NUM_JOBS": "16",
            "CARGO_CFG_TARGET_OS": "linux", "CARGO_CFG_TARGET_ARCH": "x86_64", "CARGO_CFG_UNIX": "", "CARGO_ENCODED_RUSTFLAGS": "", "RUSTC": "rustc", "CARGO_MAKEFLAGS": "-j16",
            "CARGO_FEATURE_DEFAULT": "1", "RUSTUP_TOOLCHAIN": os.environ.get("RUSTUP_TOOLCHAIN", "stable-x86_64-unknown-linux-gnu")}


# what cargo tells a build script about the TARGET (the script itself runs on the host): native, web, windows
TARGET_ENVS = [
    {},
    {"TARGET": "wasm32-unknown-unknown", "CARGO_CFG_TARGET_ARCH": "wasm32", "CARGO_CFG_TARGET_OS": "unknown", "CARGO_CFG_TARGET_FAMILY": "wasm", "CARGO_CFG_UNIX": None, "CARGO_CFG_TARGET_POINTER_WIDTH": "32"},
    {"TARGET": "x86_64-pc-windows-msvc", "CARGO_CFG_TARGET_OS": "windows", "CARGO_CFG_TARGET_FAMILY": "windows", "CARGO_CFG_WINDOWS": "", "CARGO_CFG_UNIX": None, "CARGO_CFG_TARGET_ENV": "msvc"},
    {"CARGO_PKG_RUST_VERSION": "", "OUT_DIR": None, "CARGO_MANIFEST_DIR": None},
    # the including crate declares an old rust-version; the build runs on docs.rs / in CI
    {"CARGO_PKG_RUST_VERSION": "1.70", "DOCS_RS": "1", "CI": "true"},
    {"CARGO_PKG_RUST_VERSION": "1.56.1", "CARGO_CFG_DOCSRS": "", "GITHUB_ACTIONS": "true", "TMPDIR": "/nonexistent/tmp", "TMP": "/nonexistent/tmp", "TEMP": "/nonexistent/tmp"},
]


def with_target_envs(cases):
    """give every case that has none a per-call environment, rotating over TARGET_ENVS"""
    for i, c in enumerate(cases):
        if "env" not in c and TARGET_ENVS[i % len(TARGET_ENVS)]:
            c["env"] = TARGET_ENVS[i % len(TARGET_ENVS)]
    return cases


def planted_cwd():
    """the working directory of every driver run: it holds files under the include paths the families use (with other contents), which the
    generator has no business reading"""
    d = os.path.join(WORK, "cwd_planted")
    if not os.path.isdir(os.path.join(d, "shaders")):
        os.makedirs(os.path.join(d, "shaders"), exist_ok=True)
        os.makedirs(os.path.join(d, "dir"), exist_ok=True)
        for rel in ("shader.wgsl", "a.wgsl", "b.wgsl", "shaders/main.wgsl", "dir/a.wgsl"):
            open(os.path.join(d, rel), "w").write("// planted: not the shader\n@compute @workgroup_size(1) fn planted() {}\n")
    return d


def _vdriver_once(cpath, tpath, keep, detail, outdir, extra, timeout):
    cmd = [VDRIVER, "gen", os.path.abspath(cpath), os.path.abspath(tpath), "--detail", str(detail)]
    if keep is not None:
        cmd += ["--keep", ",".join(keep)]
    if outdir:
        cmd += ["--out", os.path.abspath(outdir)]
    if extra:
        cmd += extra
    return run(cmd, timeout=timeout, env=dict(build_script_env(), **VDRIVER_ENV), cwd=planted_cwd())


# extra environment for the next driver runs (e.g. VERIF_DELETED_CWD)
VDRIVER_ENV = {}


def run_vdriver(cases, tag, keep=None, detail=0, outdir=None, extra=None, case_timeout=None):
    """Write cases (list of dicts) to ndjson, run the driver on the REAL generator, return trace path.
    With case_timeout (seconds) a batch that does not finish is re-run one case per child process;
    a case that still does not return is recorded as an observation ret.kind = "timeout"."""
    build_harness()
    d = os.path.join(WORK, "runs", tag)
    shutil.rmtree(d, ignore_errors=True)
    os.makedirs(d, exist_ok=True)
    cpath = os.path.join(d, "cases.ndjson")
    with_target_envs(cases)
    with open(cpath, "w") as f:
        for c in cases:
            f.write(json.dumps(c) + "\n")
    tpath = os.path.join(d, "trace.ndjson")
    t0 = time.time()
    try:
        rc, out = _vdriver_once(cpath, tpath, keep, detail, outdir, extra, (120 + 0.3 * len(cases)) if case_timeout else 3000)
        if rc != 0:
            log(out[-3000:])
            raise ToolError("vdriver failed (rc=%d)" % rc)
    except subprocess.TimeoutExpired:
        if not case_timeout:
            raise ToolError("vdriver timed out")
        log("[drive] batch did not finish; isolating cases (%ds each)" % case_timeout)
        with open(tpath, "w") as tf:
            for i, c in enumerate(cases):
                cp1 = os.path.join(d, "one.ndjson")
                tp1 = os.path.join(d, "one.trace")
                open(cp1, "w").write(json.dumps(c) + "\n")
                try:
                    rc, out = _vdriver_once(cp1, tp1, keep, detail, outdir, extra, case_timeout)
                    if rc != 0:
                        raise ToolError("vdriver failed on case %s" % c["id"])
                    tf.write(open(tp1).read())
                except subprocess.TimeoutExpired:
                    ce = {"ev": "case", "id": c["id"], "family": c.get("family", ""), "has_s": False, "opts": c.get("opts", {}), "src_sha": "timeout-" + c["id"]}
                    for k in ("fmt_plan", "fmt_late", "size_class"):
                        if k in c:
                            ce[k] = c[k]
                    tf.write(json.dumps(ce) + "\n")
                    tf.write(json.dumps({"ev": "obs", "id": c["id"], "ret": {"kind": "timeout", "seconds": case_timeout},
                                         "oracle": {"parse": {"ok": True}}, "work": [0, 0, 0, 0], "micros": case_timeout * 1000000}) + "\n")
    log("[drive] %d cases through the real generator in %.1fs (%s)" % (len(cases), time.time() - t0, tag))
    return tpath


def run_vdriver_raw(sub, in_objs, tag, cwd=None, env=None, clean_env=False, extra=None, timeout=3000):
    """run a driver subcommand (`gen` or `sched`) in a separate process, optionally from another working
    directory and with a scrubbed / altered environment; returns the list of trace events"""
    build_harness()
    d = os.path.join(WORK, "runs", tag)
    shutil.rmtree(d, ignore_errors=True)
    os.makedirs(d, exist_ok=True)
    ip = os.path.join(d, "in.ndjson")
    with open(ip, "w") as f:
        for o in in_objs:
            f.write(json.dumps(o) + "\n")
    tp = os.path.join(d, "trace.ndjson")
    cmd = [VDRIVER, sub, ip, tp] + (extra or [])
    e = {"PATH": os.environ.get("PATH", ""), "HOME": os.environ.get("HOME", "/root")} if clean_env else dict(os.environ, **build_script_env())
    if env:
        e.update(env)
    p = subprocess.run(cmd, cwd=cwd, env=e, timeout=timeout, stdout=subprocess.PIPE, stderr=subprocess.STDOUT, text=True, errors="replace")
    if p.returncode != 0:
        log(p.stdout[-3000:])
        raise ToolError("vdriver %s failed (rc=%d)" % (sub, p.returncode))
    return [json.loads(l) for l in open(tp) if l.strip()]


def tlc_safe(v):
    """make a JSON value digestible by TLC's Json module (no nulls, floats or big ints; ASCII strings)"""
    if v is None:
        return "null"
    if isinstance(v, bool):
        return v
    if isinstance(v, int):
        return v if -2**31 <= v < 2**31 else str(v)
    if isinstance(v, float):
        return repr(v)
    if isinstance(v, str):
        if all(0x20 <= ord(ch) < 0x7f for ch in v):
            return v
        return "".join(ch if 0x20 <= ord(ch) < 0x7f else "\\u{%x}" % ord(ch) for ch in v)
    if isinstance(v, list):
        return [tlc_safe(x) for x in v]
    if isinstance(v, dict):
        return {tlc_safe(k): tlc_safe(x) for k, x in v.items() if x is not None}
    return str(v)


def concretise(shaders):
    """abstract shader records -> WGSL texts, through the driver's concretiser"""
    build_harness()
    d = os.path.join(WORK, "runs", "concretise_%d" % os.getpid())
    os.makedirs(d, exist_ok=True)
    cp = os.path.join(d, "c.ndjson")
    with open(cp, "w") as f:
        for i, S in enumerate(shaders):
            f.write(json.dumps({"id": str(i), "S": S}) + "\n")
    rc, out = run([VDRIVER, "concretise", cp, "--json"], timeout=600)
    if rc != 0:
        raise ToolError("concretise failed: " + out[-2000:])
    res = [json.loads(l)["wgsl"] for l in out.splitlines() if l.startswith("{")]
    shutil.rmtree(d, ignore_errors=True)
    return res


REPO_SHADERS = ["example/src/shader.wgsl", "example/src/compute_shader.wgsl", "wgsl_to_wgpu/src/data/fragment_simple.wgsl",
                "wgsl_to_wgpu/src/data/bindgroup/compute.wgsl", "wgsl_to_wgpu/src/data/bindgroup/fragment.wgsl",
                "wgsl_to_wgpu/src/data/bindgroup/vertex.wgsl"]


def repo_shaders():
    out = []
    for p in REPO_SHADERS:
        fp = os.path.join("/repo", p)
        if os.path.exists(fp):
            out.append(("repo-" + os.path.basename(p), open(fp).read()))
    return out


class TraceResult:
    def __init__(self):
        self.verdicts = []
        self.judged = 0
        self.bad = 0
        self.lines = 0
        self.accepted = False
        self.wall = 0.0


def validate_trace(trace_path, enforce, module="Trace_Gen.tla", cfg="Trace_Gen.cfg", chunk_lines=12000, env=None):
    """Feed a recorded trace to TLC (chunked). Returns accumulated verdicts."""
    res = TraceResult()
    lines = open(trace_path).read().splitlines()
    # chunk at case boundaries, and only where the source changes (the memo of History checks is per source)
    chunks, curc = [], []
    last_sha = None
    for ln in lines:
        if '"ev":"case"' in ln[:400] or '"ev": "case"' in ln[:400]:
            try:
                sha = json.loads(ln).get("src_sha")
            except Exception:
                sha = None
            if len(curc) >= chunk_lines and sha != last_sha:
                chunks.append(curc)
                curc = []
            last_sha = sha
        curc.append(ln)
    if curc:
        chunks.append(curc)
    t0 = time.time()
    for i, ch in enumerate(chunks):
        cp = trace_path + ".chunk%d" % i
        open(cp, "w").write("\n".join(ch) + "\n")
        metadir = os.path.join(WORK, "tlc", "trace_%s_%d_%d" % (enforce, os.getpid(), i))
        e = {"TRACE": cp, "ENFORCE": enforce,
             "JAVA_TOOL_OPTIONS": "-Xss1g -Dtlc2.tool.queue.IStateQueue=StateDeque"}
        if env:
            e.update(env)
        rc, out = run(tlc_cmd(module, os.path.join(SPEC, cfg), 1, metadir), cwd=SPEC, env=e, timeout=3200)
        shutil.rmtree(metadir, ignore_errors=True)
        summ = None
        for line in out.splitlines():
            if line.startswith('"VERDICT '):
                res.verdicts.append(json.loads(json.loads(line)[8:]))
            elif line.startswith('"SUMMARY '):
                summ = json.loads(json.loads(line)[8:])
        if summ is None or summ["depth"] != summ["lines"] + 1 or "Error:" in out.replace("Error: Postcondition", "X") and "No error has been found" not in out:
            log("\n".join(l for l in out.splitlines() if not l.startswith('"VERDICT'))[-5000:])
            raise ToolError("trace validation did not consume the whole trace chunk %s (module %s)" % (cp, module))
        res.judged += summ["judged"]
        res.bad += summ["bad"]
        res.lines += summ["lines"]
        os.remove(cp)
    res.accepted = True
    res.wall = time.time() - t0
    log("[tlc] validated %d trace lines in %d chunk(s), %d cases judged under %s, %d failing checks, %.1fs"
        % (res.lines, len(chunks), res.judged, enforce, res.bad, res.wall))
    return res


def validate_by_reachability(trace_path, module, cfg, describe):
    """Trace validation by reachability (silent model steps between recorded milestones).
    The trace is a concatenation of calls; a call whose events no behaviour of the specification explains is
    reported, removed, and the rest of the trace is validated again. Returns (n_calls, [rejected...])."""
    lines = [l for l in open(trace_path).read().splitlines() if l.strip()]
    calls, cur = [], []
    for ln in lines:
        if json.loads(ln).get("ev") == "case" and cur:
            calls.append(cur)
            cur = []
        cur.append(ln)
    if cur:
        calls.append(cur)
    n_calls = len(calls)
    rejected = []
    rounds = 0
    t0 = time.time()
    while calls and rounds < 80:
        rounds += 1
        flat = [ln for c in calls for ln in c]
        cp = trace_path + ".reach"
        open(cp, "w").write("\n".join(flat) + "\n")
        metadir = os.path.join(WORK, "tlc", "reach_%d" % os.getpid())
        e = {"TRACE": cp, "JAVA_TOOL_OPTIONS": "-Xss1g -Dtlc2.tool.queue.IStateQueue=StateDeque"}
        rc, out = run(tlc_cmd(module, os.path.join(SPEC, cfg), 1, metadir), cwd=SPEC, env=e, timeout=3200)
        shutil.rmtree(metadir, ignore_errors=True)
        summ = None
        for line in out.splitlines():
            if line.startswith('"SUMMARY '):
                summ = json.loads(json.loads(line)[8:])
        if summ is None:
            log(out[-4000:])
            raise ToolError("reachability validation produced no summary (%s)" % module)
        if summ["maxl"] >= len(flat) + 1:
            break
        # the event at index maxl (1-based) could not be consumed: find its call
        k = summ["maxl"] - 1
        acc = 0
        for ci, c in enumerate(calls):
            if k < acc + len(c):
                ev = json.loads(c[k - acc])
                case = json.loads(c[0])
                rejected.append({"case": case, "events": [json.loads(x) for x in c], "stuck_at": ev, "matched": k - acc, "why": describe(case, [json.loads(x) for x in c], k - acc)})
                del calls[ci]
                break
            acc += len(c)
        else:
            raise ToolError("could not locate the rejected event")
    log("[tlc] reachability validation of %d calls (%d lines) in %d round(s): %d rejected, %.1fs" % (n_calls, len(lines), rounds, len(rejected), time.time() - t0))
    return n_calls, rejected


# ---------------------------------------------------------------- known findings

def load_findings():
    p = os.path.join(ROOT, "known_findings.json")
    if not os.path.exists(p):
        return []
    return json.load(open(p)).get("findings", [])


def match_finding(prop, verdict, case, findings):
    """A verdict is covered by an OPEN finding iff the finding's signature matches this instance.
    Signatures: `cause` = a cause name of spec/Compile.tla: the verdict carries the set of causes the
    specification predicts for this very input ("[predicted=[..]]"); it is covered only if that set is non-empty
    and EVERY predicted cause is an open finding (returns the first). `msg_regex` / `family_regex`: regular
    expressions over the verdict text / case family."""
    open_f = [f for f in findings if f.get("status") == "open" and f.get("property") == prop]
    msg = verdict.get("msg", "")
    m = re.search(r"\[predicted=(\[[^\]]*\])\]", msg)
    if m:
        try:
            pred = json.loads(m.group(1))
        except Exception:
            pred = []
        # a finding may be limited to option values (e.g. only with the formatter on)
        def opts_ok(f):
            want = f.get("signature", {}).get("opts")
            return not want or all((case or {}).get("opts", {}).get(k_) == v_ for k_, v_ in want.items())
        causes = {f["signature"]["cause"]: f for f in open_f if "cause" in f.get("signature", {}) and opts_ok(f)}
        if pred and all(c in causes for c in pred):
            return causes[pred[0]]
        if pred or any("cause" in f.get("signature", {}) for f in open_f):
            # predicted-cause verdicts are only ever matched by cause
            open_f = [f for f in open_f if "cause" not in f.get("signature", {})]
    for f in open_f:
        sig = f.get("signature", {})
        if "cause" in sig:
            continue
        ok = bool(sig)
        if "msg_regex" in sig and not re.search(sig["msg_regex"], msg):
            ok = False
        if "family_regex" in sig and not re.search(sig["family_regex"], verdict.get("family", "")):
            ok = False
        if ok:
            return f
    return None


# ---------------------------------------------------------------- reporting

class Report:
    def __init__(self, prop, tier, seed, level="model_checking"):
        self.prop = prop
        self.tier = tier
        self.seed = seed
        self.level = level
        self.t0 = time.time()
        self.states = 0
        self.transitions = 0
        self.traces = 0
        self.evaluations = 0
        self.distinct = set()
        self.samples = []
        self.violations = []
        self.known = []
        self.notes = []
        self.mc = []
        self.assumptions = []
        self.families = {}
        self.exhaustive = False
        self.oracle_disagreements = []
        self.proj_failures = []
        self.how = {}          # family -> how its cases are driven / judged (stored in replay files)

    def add_mc(self, name, r, note=""):
        self.states += r.distinct
        self.transitions += r.states
        self.mc.append({"module": name, "distinct_states": r.distinct, "states_generated": r.states,
                        "initial_states": r.init_states, "exported_cases": len(r.cases), "wall_s": round(r.wall, 1), "note": note})

    def add_selftest(self, name, r):
        self.mc.append({"module": name, "selftest": "mutant configuration rejected by TLC", "violated": r.violated,
                        "wall_s": round(r.wall, 1)})

    def sample(self, s):
        if len(self.samples) < 6:
            self.samples.append(s)


def handle_verdicts(rep, tr, cases_by_id, family):
    """Classify TLC verdicts: oracle disagreement / projection failure (tool errors), known finding, violation."""
    findings = load_findings()
    rep.traces += tr.judged
    rep.families[family] = rep.families.get(family, 0) + tr.judged
    for v in tr.verdicts:
        msg = v.get("msg", "")
        if msg.startswith("ORACLE"):
            rep.oracle_disagreements.append(v)
            continue
        if msg.startswith("PROJ") or msg.startswith("HOOK"):
            rep.proj_failures.append(v)
            continue
        case = cases_by_id.get(v.get("id"))
        f = match_finding(rep.prop, v, case, findings)
        if f:
            rep.known.append((f, v))
        else:
            rep.violations.append((v, case))


def write_replay(prop, v, case, how=None):
    d = os.path.join(REPLAYS, prop)
    os.makedirs(d, exist_ok=True)
    safe = re.sub(r"[^A-Za-z0-9_.-]", "_", v.get("id", "case"))[:80]
    p = os.path.join(d, safe + ".json")
    json.dump({"property": prop, "verdict": v, "case": case, "how": how}, open(p, "w"), indent=1)
    return p


def finish(rep, extra_cov=None):
    """Print VIOLATION / KNOWN-FINDING lines, write evidence, return the exit code."""
    os.makedirs(EVIDENCE, exist_ok=True)
    wall = time.time() - rep.t0
    code = 0
    seen_known = set()
    for f, v in rep.known:
        if f["id"] not in seen_known:
            seen_known.add(f["id"])
            print("KNOWN-FINDING: property=%s %s [%s] (e.g. case %s)" % (rep.prop, f["text"], f["id"], v.get("id")))
    if rep.oracle_disagreements or rep.proj_failures:
        for v in (rep.oracle_disagreements + rep.proj_failures)[:10]:
            log("TOOL-ERROR %s" % json.dumps(v))
        code = 2
    shown = 0
    for v, case in rep.violations:
        p = write_replay(rep.prop, v, case, rep.how.get(v.get("family")) or (rep.how.get(case.get("family")) if case else None))
        if shown < 25:
            print("VIOLATION property=%s replay=%s" % (rep.prop, p))
            log("  case %s: %s" % (v.get("id"), v.get("msg", "")[:600]))
        shown += 1
    if rep.violations:
        code = 1
    cov = {
        "states": rep.states, "transitions": rep.transitions,
        "traces_validated_against_impl": rep.traces,
        "evaluations": rep.evaluations, "distinct_nontrivial": len(rep.distinct),
        "rule": "cases are abstract shader records exported by bounded TLC runs plus seeded random records; "
                "distinct = distinct concrete WGSL source hash x option vector; a case counts only if the real generator was "
                "run on it and TLC judged the property's definition on the recorded observation",
        "samples": rep.samples[:6] or ["(none)"],
        "model_checking_runs": rep.mc,
        "families": rep.families,
        "exhaustive": rep.exhaustive,
        "known_findings_seen": sorted(seen_known),
        "notes": rep.notes,
    }
    if extra_cov:
        cov.update(extra_cov)
    ev = {"property_id": rep.prop, "tier": rep.tier, "seed": rep.seed, "level": rep.level, "coverage": cov,
          "assumptions": rep.assumptions, "wall_s": round(wall, 1), "violations": len(rep.violations)}
    if code != 2:
        json.dump(ev, open(os.path.join(EVIDENCE, rep.prop + ".json"), "w"), indent=1)
    log("[%s] tier=%s judged=%d violations=%d known=%d wall=%.1fs exit=%d" % (rep.prop, rep.tier, rep.traces, len(rep.violations), len(rep.known), wall, code))
    return code


def src_key(case):
    return hashlib.sha1(json.dumps([case.get("S"), case.get("wgsl"), case.get("opts")], sort_keys=True).encode()).hexdigest()
