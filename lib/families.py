"""Case families: turning TLC-exported abstract cases into driver cases, and seeded random
generators of abstract shader records that go beyond the TLC bounds."""
import json, random, copy

VEC4 = {"k": "vec", "n": 4, "s": "f32"}


def json_copy(x):
    import json as _j
    return _j.loads(_j.dumps(x))


def opts(**kw):
    o = {"bmv": False, "bmh": False, "enc": False, "serde": False, "mv": "rust", "rustfmt": False, "validate": "none"}
    o.update(kw)
    return o


def frag_entry(name="fs_main", body=None):
    return {"name": name, "stage": "fragment", "params": [], "body": body or [], "wg": []}


# ------------------------------------------------------------------ C11 / bind group data
def bgd_shader(decls, use=False, names=None, tys=None):
    gl = []
    for i, d in enumerate(decls):
        gl.append({"name": (names[i] if names else "g%d" % i), "space": "uniform", "group": str(d["g"]), "binding": str(d["b"]),
                   "ty": (tys[i] if tys else VEC4)})
    body = [{"k": "access", "g": g["name"], "how": "load"} for g in gl] if use else []
    return {"structs": [], "globals": gl, "consts": [], "overrides": [], "functions": [], "entries": [frag_entry(body=body)]}


def interleave_plain_globals(S, k):
    """declare variables without a binding (private / workgroup / push constant) between the resource variables, position chosen by k"""
    extra = [{"name": "pv_state", "space": "private", "ty": {"k": "scalar", "s": "f32"}}, {"name": "wg_tile", "space": "workgroup", "ty": {"k": "array", "n": 4, "e": {"k": "scalar", "s": "u32"}}},
             {"name": "pc", "space": "push", "ty": {"k": "vec", "n": 4, "s": "f32"}}]
    gl = S["globals"]
    x = extra[k % 3]
    if not any(g["name"] == x["name"] for g in gl):
        gl.insert((k // 3) % (len(gl) + 1), x)
    if k % 5 == 0:
        y = extra[(k + 1) % 3]
        if not any(g["name"] == y["name"] for g in gl):
            gl.insert(0, y)
    return S


def bgd_cases_from_export(exported, quick):
    cases = []
    for i, e in enumerate(exported):
        d = e["decls"]
        cases.append({"id": "bgd-%05d" % i, "family": "bgd-export", "S": bgd_shader(d), "opts": opts()})
        if i % 8 == 5:
            # a declaration-only module: no entry point at all
            T = bgd_shader(d)
            T["entries"] = []
            cases.append({"id": "bgd-%05d-ne" % i, "family": "bgd-export-no-entry-point", "S": T, "opts": opts(validate=("none", "all")[(i // 8) % 2])})
        if i % 8 == 6:
            # only every other variable is used, with and without the validator
            T = bgd_shader(d, use=True)
            T["entries"][0]["body"] = T["entries"][0]["body"][::2]
            cases.append({"id": "bgd-%05d-pu" % i, "family": "bgd-export-partly-used", "S": T, "opts": opts(validate=("none", "all")[(i // 8) % 2])})
        if i % 8 == 1:
            # variables used by entry points of disjoint stages (even ones by a fragment entry, odd ones by a compute entry), kinds mixed
            kinds = [VEC4, {"k": "tex", "class": "sampled", "dim": "2d", "kind": "f32"}, {"k": "sampler", "cmp": False}, {"k": "array", "n": 4, "e": {"k": "scalar", "s": "u32"}}]
            T = bgd_shader(d, use=False, tys=[kinds[(i + j) % len(kinds)] for j in range(len(d))])
            for g_ in T["globals"]:
                g_["space"] = "handle" if g_["ty"]["k"] in ("tex", "sampler") else ("storage_r" if g_["ty"]["k"] == "array" else "uniform")
            def acc(g_):
                return {"k": "access", "g": g_["name"], "how": "tex_dims" if g_["ty"]["k"] == "tex" else "load"}
            usable = [g_ for g_ in T["globals"] if g_["ty"]["k"] != "sampler"]
            T["entries"] = [{"name": "fs_main", "stage": "fragment", "params": [], "body": [acc(g_) for g_ in usable[0::2]], "wg": []},
                            {"name": "cs_main", "stage": "compute", "params": [], "body": [acc(g_) for g_ in usable[1::2]], "wg": ["1"]}]
            cases.append({"id": "bgd-%05d-ds" % i, "family": "bgd-export-disjoint-stages-mixed-kinds", "S": T, "opts": opts(validate=("none", "all")[(i // 8) % 2])})
        if i % 16 == 10:
            T = bgd_shader(d, use=False, tys=[({"k": "atomic", "s": "u32"} if j == 0 else VEC4) for j in range(len(d))])
            T["globals"][0]["space"] = "storage_rw"
            cases.append({"id": "bgd-%05d-at" % i, "family": "bgd-export-bare-atomic-first", "S": T, "opts": opts()})
        if i % 4 == 3:
            # validator on, but no entry point uses the variables: the validator itself does not look at unused variables
            cases.append({"id": "bgd-%05d-vu" % i, "family": "bgd-export-validated-unused", "S": bgd_shader(d), "opts": opts(validate="all")})
        if i % 4 == 2:
            cases.append({"id": "bgd-%05d-p" % i, "family": "bgd-export-interleaved", "S": interleave_plain_globals(bgd_shader(d), i // 4), "opts": opts()})
        # every 4th sequence also with all variables used and the validator on (its own error may pre-empt)
        if i % 4 == 0:
            cases.append({"id": "bgd-%05d-v" % i, "family": "bgd-export-validated", "S": bgd_shader(d, use=True), "opts": opts(validate="all")})
        elif i % 4 == 1:
            cases.append({"id": "bgd-%05d-u" % i, "family": "bgd-export-used", "S": bgd_shader(d, use=True), "opts": opts()})
    return cases


BIG = [4294967295, 4294967294, 2147483648, 2147483647, 65536, 1048576, 1048577, 3000000000]


def bgd_random(rng, n):
    cases = []
    for i in range(n):
        ln = rng.randint(1, 9)
        mode = rng.choice(["small", "small", "big", "mixed", "dense"])
        decls = []
        for _ in range(ln):
            if mode == "dense":
                g = rng.randint(0, 3)
                b = rng.randint(0, 12)
            elif mode == "small":
                g = rng.randint(0, 4)
                b = rng.randint(0, 4)
            elif mode == "big":
                g = rng.choice([0, 1, 2] + BIG)
                b = rng.choice([0, 1, 5] + BIG)
            else:
                g = rng.choice([0, 0, 1, 1, 2, 3] + BIG[:2])
                b = rng.choice([0, 1, 2, 3, 7] + BIG)
            decls.append({"g": g, "b": b})
        if mode == "dense":
            # make the groups dense and bindings unique most of the time: exercises the Ok path with sparse/unordered indices
            gs = sorted(set(d["g"] for d in decls))
            remap = {g: k for k, g in enumerate(gs)}
            seen = set()
            nd = []
            for d in decls:
                d = {"g": remap[d["g"]], "b": d["b"]}
                if (d["g"], d["b"]) in seen and rng.random() < 0.85:
                    continue
                seen.add((d["g"], d["b"]))
                nd.append(d)
            decls = nd
        tys = [rng.choice([VEC4, {"k": "scalar", "s": "f32"}, {"k": "mat", "c": 4, "r": 4, "s": "f32"}]) for _ in decls]
        use = rng.random() < 0.4
        val = rng.choice(["none", "none", "all"])
        cases.append({"id": "bgd-r%05d" % i, "family": "bgd-random-" + mode, "S": bgd_shader(decls, use=use, tys=tys), "opts": opts(validate=val)})
    # large groups: 17 to 40 variables in one group, all distinct or with a LATE variable repeating the binding of an early one
    for j, n_vars in enumerate([16, 17, 18, 24, 33, 40]):
        base = list(range(n_vars))
        rng.shuffle(base)
        for rep_at, rep_of in ((None, None), (n_vars - 1, 0), (n_vars - 1, min(15, n_vars - 2)), (min(16, n_vars - 1), 3), (n_vars // 2, n_vars // 2 - 1)):
            bs = list(base)
            if rep_at is not None:
                bs[rep_at] = bs[rep_of]
            decls = [{"g": 0, "b": b} for b in bs] + [{"g": 1, "b": 0}]
            for val in ("none", "all"):
                cases.append({"id": "bgd-large-%02d-%s-%s" % (n_vars, "ok" if rep_at is None else "dup%dof%d" % (rep_at, rep_of), val), "family": "bgd-large-groups",
                              "S": bgd_shader(decls, use=False), "opts": opts(validate=val)})
    # many groups: two-digit group numbers (orders by text instead of by number), dense and with one group missing
    for j, n_groups in enumerate([9, 10, 11, 12, 16, 23, 32]):
        for miss in (None, 1, n_groups - 2):
            decls = [{"g": g, "b": b} for g in range(n_groups) if g != miss for b in ((0,) if g % 3 else (1, 0))]
            rng.shuffle(decls)
            for val in ("none", "all"):
                cases.append({"id": "bgd-many-%02d-%s-%s" % (n_groups, "dense" if miss is None else "gap%d" % miss, val), "family": "bgd-many-groups",
                              "S": bgd_shader(decls, use=(j % 2 == 0)), "opts": opts(validate=val)})
    return cases


# ------------------------------------------------------------------ generic random shaders
SCALARS = ["f32", "i32", "u32"]
CTXS = ["plain", "if_accept", "if_reject", "if_else_if", "switch_case", "switch_default", "switch_multi", "loop_body",
        "loop_continuing", "for_body", "while_body", "switch_after_default", "if_both"]
FORMATS_F = ["rgba8unorm", "rgba8snorm", "rgba16float", "r32float", "rg32float", "rgba32float"]
FORMATS_U = ["rgba8uint", "rgba16uint", "r32uint", "rg32uint", "rgba32uint"]
FORMATS_I = ["rgba8sint", "rgba16sint", "r32sint", "rg32sint", "rgba32sint"]
IDENT_POOL = ["camera", "light", "params", "data", "tint", "bones", "αβγ", "größe", "café", "数据", "Δt", "naïve", "x1", "_u",
              "simParams", "ColorTexture", "MAX_LIGHTS", "myData2D", "HTTPBuffer", "g_Scene"]
GLOBAL_NAME_STYLES = [lambda n: "sim" + n.capitalize(), lambda n: n.capitalize() + "Tex", lambda n: "MAX_" + n.upper(), lambda n: n + "2D", lambda n: "g_" + n.capitalize(),
                      lambda n: n + "_", lambda n: "HTTP" + n.capitalize() + "Buf"]


ALIAS_NAMES = ["Color", "Weights", "Real", "Mat", "Block4", "index_t", "ColorTexture", "Smp"]


def alias_resources(S):
    """declare every texture / sampler type of the module through an `alias`"""
    S.setdefault("aliases", [])
    n = 0
    for g in S["globals"]:
        if g["ty"]["k"] in ("tex", "sampler") and not any(a["ty"] == g["ty"] for a in S["aliases"]):
            S["aliases"].append({"name": "%sAlias%d" % ("Tex" if g["ty"]["k"] == "tex" else "Smp", n), "ty": g["ty"]})
            n += 1
    return S


def add_aliases(S, rng, k=2):
    """declare `alias` names for some non-struct member / variable types: naga gives such types a name, but they are not structs"""
    seen = []

    def collect(t):
        if t["k"] in ("scalar", "vec", "mat", "array") and t not in seen:
            seen.append(t)
        if t["k"] in ("array", "rtarray"):
            collect(t["e"])
    for d in S["structs"]:
        for m in d["members"]:
            collect(m["ty"])
    for g in S["globals"]:
        if g["ty"]["k"] not in ("tex", "sampler"):
            collect(g["ty"])
        elif g["ty"] not in seen and rng.random() < 0.5:
            seen.append(g["ty"])          # `alias ColorTexture = texture_2d<f32>;` is legal as well
    seen = [t for t in seen if not (t["k"] == "scalar" and t["s"] == "bool")]
    taken = {d["name"] for d in S["structs"]} | {g["name"] for g in S["globals"]} | {f["name"] for f in S["functions"]} | {e["name"] for e in S["entries"]}
    names = [n for n in ALIAS_NAMES if n not in taken]
    rng.shuffle(names)
    S["aliases"] = [{"name": names[i], "ty": t} for i, t in enumerate(rng.sample(seen, min(k, len(seen), len(names))))]
    return S


def restyle_globals(S, rng, p=1.0):
    """give module-scope variables names in other styles (camelCase, PascalCase, UPPER_CASE, trailing underscore): WGSL accepts them all
    and the generated field / parameter names must follow them verbatim"""
    taken = {g["name"] for g in S["globals"]} | {d["name"] for d in S["structs"]} | {f["name"] for f in S["functions"]} | {e["name"] for e in S["entries"]} \
        | {c["name"] for c in S.get("consts", [])} | {o["name"] for o in S.get("overrides", [])}
    mp = {}
    for g in S["globals"]:
        if rng.random() < p:
            new = rng.choice(GLOBAL_NAME_STYLES)(g["name"])
            if new not in taken and new.isascii():
                taken.add(new)
                mp[g["name"]] = new

    def fix(t):
        if isinstance(t, dict):
            if t.get("k") == "access":
                for key in ("g", "with"):
                    if t.get(key) in mp:
                        t[key] = mp[t[key]]
            for v in t.values():
                fix(v)
        elif isinstance(t, list):
            for v in t:
                fix(v)
    for g in S["globals"]:
        g["name"] = mp.get(g["name"], g["name"])
    fix(S["functions"])
    fix(S["entries"])
    return S


def rand_leaf(rng, allow_mat=True):
    r = rng.random()
    if r < 0.3:
        return {"k": "scalar", "s": rng.choice(SCALARS)}
    if r < 0.75 or not allow_mat:
        return {"k": "vec", "n": rng.choice([2, 3, 4]), "s": rng.choice(SCALARS)}
    return {"k": "mat", "c": rng.choice([2, 3, 4]), "r": rng.choice([2, 3, 4]), "s": "f32"}


def wrap(rng, node, depth):
    for _ in range(depth):
        node = {"k": "block", "ctx": rng.choice(CTXS), "items": [node]}
    return node


def hows_for(g, S):
    """access forms that are valid WGSL for global g"""
    sp, ty = g["space"], g["ty"]
    k = ty["k"]
    if k == "sampler":
        want = "depth" if ty["cmp"] else "sampled"
        comp = [x for x in S["globals"] if x["ty"]["k"] == "tex" and x["ty"]["class"] == want and not x["ty"].get("multi")
                and (want == "depth" or x["ty"].get("kind") == "f32") and x["ty"]["dim"] in ("2d", "2d_array", "cube", "cube_array", "3d")
                and not (want == "depth" and x["ty"]["dim"] == "3d")]
        return [("sample", c["name"]) for c in comp]
    if k == "tex":
        c = ty["class"]
        if c == "storage":
            a = ty["access"]
            if a == "write":
                return [("tex_store", None), ("tex_dims", None)]
            if a == "read":
                return [("tex_load", None), ("tex_dims", None)]
            if a == "atomic":
                return [("tex_atomic", None)]
            return [("tex_load", None), ("tex_store", None), ("tex_dims", None)]
        if c == "depth":
            if ty.get("multi") or ty["dim"] in ("2d", "2d_array"):
                return [("tex_load", None), ("tex_dims", None)]
            return [("tex_dims", None)]
        if ty["dim"].startswith("cube"):
            return [("tex_dims", None)]
        return [("tex_load", None), ("tex_dims", None)]
    # buffer-like
    def leaf(t):
        while True:
            if t["k"] in ("array", "rtarray"):
                t = t["e"]
            elif t["k"] == "struct":
                d = [s for s in S["structs"] if s["name"] == t["name"]][0]
                t = d["members"][0]["ty"]
            else:
                return t
    lf = leaf(ty)
    has_rt = ty["k"] == "rtarray" or (ty["k"] == "struct" and [s for s in S["structs"] if s["name"] == ty["name"]][0]["members"][-1]["ty"]["k"] == "rtarray")
    out = [("load", None)]
    if sp in ("storage_rw", "private", "workgroup"):
        out.append(("store", None))
        if lf["k"] == "atomic":
            out.append(("atomic", None))
    if has_rt and sp in ("storage_r", "storage_rw"):
        out.append(("array_length", None))
    out.append(("addr", None))
    return out


def rand_resource_ty(rng):
    r = rng.random()
    if r < 0.22:
        return "handle", {"k": "tex", "class": "sampled", "dim": rng.choice(["1d", "2d", "2d_array", "3d", "cube", "cube_array"]), "kind": rng.choice(SCALARS)}
    if r < 0.27:
        return "handle", {"k": "tex", "class": "sampled", "dim": "2d", "kind": rng.choice(["i32", "u32"]), "multi": True}
    if r < 0.35:
        return "handle", {"k": "tex", "class": "depth", "dim": rng.choice(["2d", "2d_array", "cube", "cube_array"])}
    if r < 0.38:
        return "handle", {"k": "tex", "class": "depth", "dim": "2d", "multi": True}
    if r < 0.52:
        fam = rng.choice([FORMATS_F, FORMATS_U, FORMATS_I])
        return "handle", {"k": "tex", "class": "storage", "dim": rng.choice(["1d", "2d", "2d_array", "3d"]), "format": rng.choice(fam),
                          "access": rng.choice(["write", "read", "read_write"])}
    if r < 0.60:
        return "handle", {"k": "sampler", "cmp": rng.random() < 0.35}
    return None, None


def rand_shader(rng, n_fn=(0, 4), n_entry=(1, 3), n_res=(1, 6), depth=2, push=0.3, names=False, stages=("vertex", "fragment", "compute"),
                structs=True):
    S = {"structs": [], "globals": [], "consts": [], "overrides": [], "functions": [], "entries": []}
    pool = IDENT_POOL[:] if names else []
    rng.shuffle(pool)

    def nm(prefix, i):
        if pool and rng.random() < 0.5:
            return pool.pop() + str(i)
        return "%s%d" % (prefix, i)
    # plain structs (usable in uniform/storage/private), each member aligned-safe
    if structs:
        for i in range(rng.randint(0, 3)):
            mem = []
            for j in range(rng.randint(1, 4)):
                r = rng.random()
                if r < 0.6 or i == 0:
                    t = rand_leaf(rng)
                elif r < 0.8:
                    t = {"k": "array", "n": rng.randint(1, 4), "e": {"k": "vec", "n": 4, "s": rng.choice(SCALARS)}}
                else:
                    t = {"k": "struct", "name": S["structs"][rng.randrange(len(S["structs"]))]["name"]}
                mem.append({"name": nm("m", j), "ty": t})
            S["structs"].append({"name": "S%d" % i if not pool else nm("T", i).capitalize().replace(" ", ""), "members": mem})
    ngroups = rng.randint(1, 3)
    nres = rng.randint(*n_res)
    used = set()
    for i in range(nres):
        g = rng.randrange(ngroups) if i >= ngroups else i
        while True:
            b = rng.choice([0, 1, 2, 3, 4, 7, 9, 15, 31]) if rng.random() < 0.9 else rng.choice([100, 999])
            if (g, b) not in used:
                used.add((g, b))
                break
        sp, ty = rand_resource_ty(rng)
        if sp is None:
            sp = rng.choice(["uniform", "storage_r", "storage_rw", "storage_rw"])
            r = rng.random()
            if S["structs"] and r < 0.45:
                sd = rng.choice(S["structs"])
                ty = {"k": "struct", "name": sd["name"]}
            elif sp != "uniform" and r < 0.65:
                ty = {"k": "rtarray", "e": rng.choice([{"k": "scalar", "s": "u32"}, {"k": "vec", "n": 4, "s": "f32"}] +
                                                     ([{"k": "struct", "name": S["structs"][0]["name"]}] if S["structs"] else []))}
            elif sp == "storage_rw" and r < 0.8:
                ty = rng.choice([{"k": "atomic", "s": "u32"}, {"k": "array", "n": 4, "e": {"k": "atomic", "s": "i32"}}])
            elif sp != "uniform" and r < 0.9:
                ty = {"k": "array", "n": rng.randint(1, 5), "e": rand_leaf(rng)}
            else:
                ty = rand_leaf(rng)
        S["globals"].append({"name": nm("r", i), "space": sp, "group": str(g), "binding": str(b), "ty": ty})
    # make groups dense
    gs = sorted(set(int(x["group"]) for x in S["globals"]))
    remap = {g: k for k, g in enumerate(gs)}
    for x in S["globals"]:
        x["group"] = str(remap[int(x["group"])])
    if rng.random() < 0.3:
        S["globals"].append({"name": "pv", "space": "private", "ty": rand_leaf(rng)})
    if rng.random() < push:
        S["globals"].append({"name": "pc", "space": "push", "ty": rng.choice([rand_leaf(rng)] + ([{"k": "struct", "name": S["structs"][0]["name"]}] if S["structs"] else []))})
        if rng.random() < 0.15:
            S["globals"].append({"name": "pc_zz_unused", "space": "push", "ty": {"k": "vec", "n": 4, "s": "f32"}})
    rng.shuffle(S["globals"])
    nf = rng.randint(*n_fn)
    for i in range(nf):
        S["functions"].append({"name": "h%d" % i, "ret": rng.random() < 0.5, "body": []})
    accessible = [g for g in S["globals"]]

    def rand_body(first_callee, is_compute):
        body = []
        for _ in range(rng.randint(0, 3)):
            g = rng.choice(accessible)
            hs = hows_for(g, S)
            if not hs:
                continue
            how, comp = rng.choice(hs)
            n = {"k": "access", "g": g["name"], "how": how}
            if comp:
                n["with"] = comp
            body.append(wrap(rng, n, rng.randint(0, depth)))
        for j in range(first_callee, nf):
            if rng.random() < 0.45:
                body.append(wrap(rng, {"k": "call", "f": "h%d" % j, "expr": rng.random() < 0.5}, rng.randint(0, depth)))
        rng.shuffle(body)
        if len(body) >= 2 and rng.random() < 0.3:
            # two neighbouring statements become the two arms of one `if`
            k_ = rng.randrange(len(body) - 1)
            body[k_:k_ + 2] = [{"k": "block", "ctx": "if_split", "items": body[k_:k_ + 2]}]
        return body
    for i in range(nf):
        S["functions"][i]["body"] = rand_body(i + 1, False)
    ne = rng.randint(*n_entry)
    for i in range(ne):
        st = rng.choice(stages)
        e = {"name": nm("e", i) if not names else nm("main", i), "stage": st, "params": [], "body": rand_body(0, st == "compute"), "wg": []}
        if st == "vertex":
            e["result"] = {"k": "builtin", "b": "position"}
        elif st == "fragment" and rng.random() < 0.6:
            e["result"] = {"k": "loc", "n": 0, "ty": VEC4}
        elif st == "compute":
            e["wg"] = [str(rng.choice([1, 8, 64]))]
        S["entries"].append(e)
    return S


# ------------------------------------------------------------------ C20 growth families
G_RW = {"name": "buf", "space": "storage_rw", "group": "0", "binding": "0", "ty": {"k": "array", "n": 4, "e": {"k": "scalar", "s": "u32"}}}


def _base(globals_=None):
    return {"structs": [], "globals": [dict(G_RW)] if globals_ is None else globals_, "consts": [], "overrides": [], "functions": [], "entries": []}


def chain(depth, ret, stages=("compute",), ctx=None, pure=False):
    S = _base()
    for i in range(depth):
        body = []
        if i + 1 < depth:
            c = {"k": "call", "f": "h%d" % (i + 1), "expr": ret}
            body.append({"k": "block", "ctx": ctx, "items": [c]} if ctx else c)
        elif not pure:
            body.append({"k": "access", "g": "buf", "how": "store"})
        S["functions"].append({"name": "h%d" % i, "ret": ret, "body": body})
    for k, st in enumerate(stages):
        e = {"name": "e%d" % k, "stage": st, "params": [], "body": [{"k": "call", "f": "h0", "expr": ret}], "wg": ["1"] if st == "compute" else []}
        S["entries"].append(e)
    return S


def deep_use_cases(push):
    """a resource (or the push constant) that only the innermost helper of a long call chain touches: its visibility must still be the
    stages of the entry points at the top, however long the chain (33, 40, 64, 100 helpers) and whether or not the helpers return values;
    a second entry point of another stage stops half way down"""
    out = []
    for d in (8, 31, 32, 33, 34, 40, 64, 100):
        for ret in (False, True):
            S = chain(d, ret, stages=("vertex", "fragment"))
            # the fragment entry enters the chain half way down, a compute entry does not use the chain at all
            S["entries"][1]["body"] = [{"k": "call", "f": "h%d" % (d // 2), "expr": ret}]
            S["entries"].append({"name": "e2", "stage": "compute", "params": [], "body": [], "wg": ["1"]})
            if push:
                S["globals"] = [{"name": "pc", "space": "push", "ty": {"k": "vec", "n": 4, "s": "f32"}}]
                S["functions"][-1]["body"] = [{"k": "access", "g": "pc", "how": "load"}]
            else:
                S["functions"][-1]["body"] = [{"k": "access", "g": "buf", "how": "load"}]
            out.append({"id": "deep-%s-d%d-%s" % ("push" if push else "res", d, "ret" if ret else "void"), "family": "deep-call-chain", "S": S, "opts": opts()})
    return out


def wear_history(walks=65536, entries=255, probes=140):
    """a long-lived thread: modules with many entry points generated again and again until just under `walks` entry-point walks have
    happened on the thread, then `probes` small shaders (entry -> helper -> binding) so that the walk with that number - and every counter
    or stamp that wraps there - falls on a judged call. Each probe keeps its helpers at function positions no earlier call has used
    (2k never-called functions in front of them): tables indexed by position that were never written for those positions."""
    def wear_module(n):
        W = _base()
        W["functions"].append({"name": "touch", "ret": True, "body": [{"k": "access", "g": "buf", "how": "load"}]})
        for i in range(n):
            W["entries"].append({"name": "c%d" % i, "stage": "compute", "params": [], "wg": ["1"], "body": [{"k": "call", "f": "touch", "expr": True}] if i % 2 else [{"k": "access", "g": "buf", "how": "load"}]})
        return W
    target = walks - probes // 2
    calls = target // entries
    cases = [{"id": "wear-module", "family": "long-lived-thread", "S": wear_module(entries), "opts": opts(), "repeat": calls - 1}]
    rest = target - calls * entries
    if rest > 0:
        cases.append({"id": "wear-module-rest", "family": "long-lived-thread", "S": wear_module(rest), "opts": opts()})
    for i in range(probes):
        P = _base()
        P["globals"].append({"name": "other", "space": "uniform", "group": "0", "binding": "1", "ty": VEC4})
        for j in range(2 * i):
            P["functions"].append({"name": "unused%d" % j, "ret": False, "body": []})
        P["functions"].append({"name": "leaf", "ret": True, "body": [{"k": "access", "g": "buf", "how": "load"}]})
        P["functions"].append({"name": "mid", "ret": True, "body": [{"k": "call", "f": "leaf", "expr": True}]})
        P["entries"].append({"name": "fs_main", "stage": "fragment", "params": [], "wg": [], "body": [{"k": "call", "f": ("mid", "leaf")[i % 2], "expr": True}]})
        cases.append({"id": "wear-probe-%03d" % i, "family": "long-lived-thread", "S": P, "opts": opts()})
    return cases


def if_split_shader(ret_a, ret_b):
    """`if c { ha(); } else { hb(); }` (also nested one level down and after a switch default): each helper is the only route to its buffer"""
    S = _base([])
    for j, nm_ in enumerate(("ba", "bb", "bc", "bd")):
        S["globals"].append({"name": nm_, "space": "storage_rw", "group": "0", "binding": str(j), "ty": {"k": "array", "n": 4, "e": {"k": "scalar", "s": "u32"}}})
    S["functions"] = [{"name": "ha", "ret": ret_a, "body": [{"k": "access", "g": "ba", "how": "store"}]}, {"name": "hb", "ret": ret_b, "body": [{"k": "access", "g": "bb", "how": "store"}]},
                      {"name": "hc", "ret": False, "body": [{"k": "access", "g": "bc", "how": "store"}]}, {"name": "hd", "ret": False, "body": [{"k": "access", "g": "bd", "how": "store"}]}]
    S["entries"].append({"name": "main", "stage": "compute", "params": [], "wg": ["1"], "body": [
        {"k": "block", "ctx": "if_split", "items": [{"k": "call", "f": "ha", "expr": ret_a}, {"k": "call", "f": "hb", "expr": ret_b}]},
        {"k": "block", "ctx": "loop_body", "items": [{"k": "block", "ctx": "if_split", "items": [{"k": "call", "f": "ha", "expr": ret_a}, {"k": "call", "f": "hc", "expr": False}]}]},
        {"k": "block", "ctx": "switch_after_default", "items": [{"k": "call", "f": "hd", "expr": False}]}]})
    return S


def twin_groups_shader():
    """two groups with pairwise equal resources (binding index, kind, type) that different stages use"""
    S = _base([])
    for g_ in (0, 1):
        S["globals"].append({"name": "tex%d" % g_, "space": "handle", "group": str(g_), "binding": "0", "ty": {"k": "tex", "class": "sampled", "dim": "2d", "kind": "f32"}})
        S["globals"].append({"name": "smp%d" % g_, "space": "handle", "group": str(g_), "binding": "1", "ty": {"k": "sampler", "cmp": False}})
        S["globals"].append({"name": "ub%d" % g_, "space": "uniform", "group": str(g_), "binding": "2", "ty": VEC4})
    S["entries"].append({"name": "vs_main", "stage": "vertex", "params": [], "result": {"k": "builtin", "b": "position"}, "wg": [],
                         "body": [{"k": "access", "g": "tex0", "how": "tex_load"}, {"k": "access", "g": "smp0", "how": "sample", "with": "tex0"}, {"k": "access", "g": "ub0", "how": "load"}]})
    S["entries"].append({"name": "fs_main", "stage": "fragment", "params": [], "wg": [],
                         "body": [{"k": "access", "g": "tex1", "how": "tex_load"}, {"k": "access", "g": "smp1", "how": "sample", "with": "tex1"}, {"k": "access", "g": "ub1", "how": "load"}]})
    return S


def many_function_cases(push=False):
    out = []
    for nfn, users in ((140, (3, 131)), (300, (5, 133, 261)), (260, (0, 128, 256, 259)), (520, (7, 263, 519)), (70, (2, 66)), (200, (1, 65, 129, 193))):
        S = _base([])
        if push:
            # the push constant sits behind the LAST of the users; the others touch nothing
            S["globals"].append({"name": "pc", "space": "push", "ty": VEC4})
            for i in range(nfn):
                S["functions"].append({"name": "fn%d" % i, "ret": (i % 2 == 0), "body": [{"k": "access", "g": "pc", "how": "load"}] if i == users[-1] else []})
            S["entries"].append({"name": "vs", "stage": "vertex", "params": [], "wg": [], "body": [{"k": "call", "f": "fn%d" % i, "expr": (i % 2 == 0)} for i in users]})
            S["entries"].append({"name": "fs", "stage": "fragment", "params": [], "wg": [], "body": [{"k": "call", "f": "fn%d" % users[0], "expr": (users[0] % 2 == 0)}]})
            out.append({"id": "manyfn-push-%d" % nfn, "family": "many-functions", "S": S, "opts": opts()})
            continue
        for j, u in enumerate(users):
            S["globals"].append({"name": "b%d" % j, "space": "storage_r", "group": "0", "binding": str(j), "ty": {"k": "array", "n": 4, "e": {"k": "scalar", "s": "u32"}}})
        for i in range(nfn):
            body = [{"k": "access", "g": "b%d" % users.index(i), "how": "load"}] if i in users else []
            S["functions"].append({"name": "fn%d" % i, "ret": (i % 2 == 0), "body": body})
        S["entries"].append({"name": "main", "stage": "compute", "params": [], "wg": ["1"], "body": [{"k": "call", "f": "fn%d" % i, "expr": (i % 2 == 0)} for i in range(nfn)]})
        S["entries"].append({"name": "fs", "stage": "fragment", "params": [], "wg": [], "body": [{"k": "call", "f": "fn%d" % users[-1], "expr": (users[-1] % 2 == 0)}]})
        out.append({"id": "manyfn-%d" % nfn, "family": "many-functions", "S": S, "opts": opts()})
    return out


def nested(ctx, depth, ret=False):
    """one function whose body nests `ctx` blocks `depth` deep around a call"""
    S = _base()
    S["functions"].append({"name": "leaf", "ret": ret, "body": [{"k": "access", "g": "buf", "how": "store"}]})
    node = {"k": "call", "f": "leaf", "expr": ret}
    for _ in range(depth):
        node = {"k": "block", "ctx": ctx, "items": [node]}
    S["entries"].append({"name": "main", "stage": "compute", "params": [], "wg": ["1"], "body": [node]})
    return S


def dag_arg(n):
    """a call whose argument is an expression DAG of depth n (each step uses the previous value twice)"""
    S = _base()
    S["functions"].append({"name": "sink", "ret": False, "param": True, "body": [{"k": "access", "g": "buf", "how": "store"}]})
    S["entries"].append({"name": "main", "stage": "compute", "params": [], "wg": ["1"], "body": [{"k": "call", "f": "sink", "dag": n}]})
    return S


def diamond(levels, ret, width=2, pure=False):
    S = _base()
    for l in range(levels):
        for w in range(width):
            body = []
            if l + 1 < levels:
                for w2 in range(width):
                    body.append({"k": "call", "f": "d%d_%d" % (l + 1, w2), "expr": ret})
            elif not pure or (pure == "one" and w == 0):
                body.append({"k": "access", "g": "buf", "how": "load"})
            S["functions"].append({"name": "d%d_%d" % (l, w), "ret": ret, "body": body})
    S["entries"].append({"name": "main", "stage": "compute", "params": [], "wg": ["1"],
                         "body": [{"k": "call", "f": "d0_%d" % w, "expr": ret} for w in range(width)]})
    return S


def fan_in(n, ret, sites=3):
    S = _base()
    S["functions"].append({"name": "leaf", "ret": ret, "body": [{"k": "access", "g": "buf", "how": "store"}]})
    for i in range(n):
        S["functions"].append({"name": "fan%d" % i, "ret": ret, "body": [{"k": "call", "f": "leaf", "expr": ret} for _ in range(sites)]})
    S["entries"].append({"name": "main", "stage": "compute", "params": [], "wg": ["1"],
                         "body": [{"k": "call", "f": "fan%d" % i, "expr": ret} for i in range(n)]})
    return S


def struct_tower(levels, fan=2, via="member"):
    S = _base([])
    S["structs"].append({"name": "L0", "members": [{"name": "v", "ty": VEC4}]})
    for l in range(1, levels + 1):
        prev = {"k": "struct", "name": "L%d" % (l - 1)}
        if via == "array":
            mem = [{"name": "m%d" % j, "ty": {"k": "array", "n": 2, "e": prev}} for j in range(fan)]
        else:
            mem = [{"name": "m%d" % j, "ty": prev} for j in range(fan)]
        S["structs"].append({"name": "L%d" % l, "members": mem})
    S["globals"].append({"name": "top", "space": "storage_r", "group": "0", "binding": "0", "ty": {"k": "struct", "name": "L%d" % levels}})
    S["entries"].append({"name": "main", "stage": "compute", "params": [], "wg": ["1"], "body": [{"k": "access", "g": "top", "how": "load"}]})
    return S


def wide(n_bindings, n_members):
    S = _base([])
    S["structs"].append({"name": "Big", "members": [{"name": "m%d" % j, "ty": VEC4} for j in range(n_members)]})
    for i in range(n_bindings):
        S["globals"].append({"name": "b%d" % i, "space": "uniform", "group": str(i % 4), "binding": str(i // 4), "ty": {"k": "struct", "name": "Big"}})
    S["entries"].append({"name": "main", "stage": "fragment", "params": [], "wg": [],
                         "body": [{"k": "access", "g": "b%d" % i, "how": "load"} for i in range(n_bindings)]})
    return S


def growth_cases(quick):
    cases = []
    depths = [2, 4, 8, 12, 16, 24, 32, 48, 64]
    for d in depths:
        for ret in (False, True):
            cases.append(("chain-d%d-%s" % (d, "ret" if ret else "void"), chain(d, ret)))
        cases.append(("chain3-d%d" % d, chain(d, True, stages=("vertex", "fragment", "compute"))))
        cases.append(("chain-cont-d%d" % d, chain(d, False, ctx="loop_continuing")))
        cases.append(("chain-switch-d%d" % d, chain(d, False, ctx="switch_case")))
        cases.append(("chain-switchmulti-d%d" % d, chain(d, False, ctx="switch_multi")))
        cases.append(("chain-ifelse-d%d" % d, chain(d, True, ctx="if_else_if")))
        cases.append(("chain-ifboth-d%d-ret" % d, chain(d, True, ctx="if_both")))
        cases.append(("chain-ifboth-d%d-void" % d, chain(d, False, ctx="if_both")))
        cases.append(("dagarg-d%d" % d, dag_arg(d)))
        # helpers that touch no resource at all (nothing to remember for a cache keyed on what a function uses)
        cases.append(("chain-pure-d%d-ret" % d, chain(d, True, pure=True)))
        cases.append(("chain-pure-d%d-void" % d, chain(d, False, pure=True)))
    for d in [4, 8, 16, 24, 30]:
        for ctx in ["plain", "if_accept", "if_reject", "switch_case", "switch_multi", "switch_default", "loop_body", "loop_continuing"]:
            cases.append(("nested-%s-d%d" % (ctx, d), nested(ctx, d)))
    for l in [2, 4, 8, 12, 16, 24, 32]:
        for ret in (False, True):
            cases.append(("diamond-l%d-%s" % (l, "ret" if ret else "void"), diamond(l, ret)))
        cases.append(("diamond3-l%d" % l, diamond(min(l, 20), True, width=3)))
        cases.append(("diamond-pure-l%d-ret" % l, diamond(l, True, pure=True)))
        cases.append(("diamond-pure-l%d-void" % l, diamond(l, False, pure=True)))
        cases.append(("diamond-pure1-l%d" % l, diamond(l, True, pure="one")))
    # a push constant that only ONE small entry point reads, next to an entry point with a deep call graph that never reaches it
    for l in [8, 16, 24, 32]:
        for shape in ("diamond", "chain", "fanin"):
            D = diamond(l, True) if shape == "diamond" else (chain(l, True) if shape == "chain" else fan_in(l * 4, True))
            D["globals"].append({"name": "pc", "space": "push", "ty": VEC4})
            D["entries"].append({"name": "fs_main", "stage": "fragment", "params": [], "wg": [], "body": [{"k": "access", "g": "pc", "how": "load"}]})
            D["entries"].append({"name": "vs_main", "stage": "vertex", "params": [], "wg": [], "result": {"k": "builtin", "b": "position"}, "body": list(D["entries"][0]["body"])})
            cases.append(("pc-apart-%s-l%d" % (shape, l), D))
    # the same diamonds and fans above SEVERAL variables (per-function result lists that are merged at every call site)
    for l in [4, 8, 16, 24, 32]:
        for n_g in (2, 3):
            for ret in (False, True):
                D = diamond(l, ret)
                extra = [{"name": "buf%d" % j, "space": ("storage_rw", "uniform")[j % 2], "group": "0", "binding": str(j), "ty": json_copy(G_RW["ty"]) if j % 2 == 0 else VEC4} for j in range(1, n_g)]
                D["globals"] += extra
                for f in D["functions"]:
                    if any(b.get("k") == "access" for b in f["body"]):
                        f["body"] += [{"k": "access", "g": g["name"], "how": "load"} for g in extra]
                D["entries"].append({"name": "fs_main", "stage": "fragment", "params": [], "wg": [], "body": [{"k": "call", "f": "d%d_0" % (l // 2), "expr": ret}]})
                D["entries"].append({"name": "vs_main", "stage": "vertex", "params": [], "wg": [], "result": {"k": "builtin", "b": "position"}, "body": [{"k": "call", "f": "d0_1", "expr": ret}]})
                cases.append(("diamond-g%d-l%d-%s" % (n_g, l, "ret" if ret else "void"), D))
    for n in [4, 16, 64, 150]:
        for ret in (False, True):
            cases.append(("fanin-n%d-%s" % (n, "ret" if ret else "void"), fan_in(n, ret)))
    # struct sizes double per level, so towers stop where the byte size still fits comfortably in u32
    for l in [2, 4, 8, 12, 16, 20, 24, 26, 27]:
        cases.append(("tower-l%d" % l, struct_tower(l)))
        cases.append(("tower-arr-l%d" % l, struct_tower(min(l, 12), via="array")))
        cases.append(("tower3-l%d" % l, struct_tower(min(l, 14), fan=3)))
    for n in [8, 64, 200]:
        cases.append(("wide-b%d" % n, wide(n, 100)))
    # helpers that take a pointer parameter (chains and diamonds), and chains of overrides whose defaults use the previous one several times
    for d in (8, 16, 24, 40):
        for ret in (True, False):
            C = chain(d, ret)
            for f in C["functions"]:
                f["ptr"] = True
            cases.append(("chain-ptr-d%d-%s" % (d, "ret" if ret else "void"), C))
    for l in (8, 16, 24):
        D = diamond(l, True)
        for f in D["functions"]:
            f["ptr"] = True
        cases.append(("diamond-ptr-l%d" % l, D))
    for d, k in ((10, 3), (20, 3), (40, 3), (40, 2)):
        O = _base()
        O["overrides"] = [{"name": "level0", "ty": "f32", "default": "1.0"}] + [
            {"name": "level%d" % i, "ty": "f32", "default": " + ".join(["level%d * 0.5" % (i - 1)] * k)} for i in range(1, d)]
        O["entries"].append({"name": "main", "stage": "compute", "params": [], "wg": ["1"], "body": [{"k": "ovr", "o": "level%d" % (d - 1)}, {"k": "access", "g": "buf", "how": "load"}]})
        cases.append(("override-chain-d%d-k%d" % (d, k), O))
    for d in (8, 20, 40):
        t = {"k": "vec", "n": 4, "s": "f32"}
        for _ in range(d):
            t = {"k": "array", "n": 1, "e": t}
        A = _base([])
        A["structs"].append({"name": "Deep", "members": [{"name": "a", "ty": t}, {"name": "b", "ty": {"k": "scalar", "s": "f32"}}]})
        A["globals"].append({"name": "deep", "space": "storage_r", "group": "0", "binding": "0", "ty": {"k": "struct", "name": "Deep"}})
        A["entries"].append({"name": "main", "stage": "compute", "params": [], "wg": ["1"], "body": [{"k": "access", "g": "deep", "how": "addr"}]})
        cases.append(("nested-array-d%d" % d, A))
    for d in (8, 16, 24, 28):
        K = _base()
        K["consts"] = [{"name": "c0", "expr": "1.0f", "expect": "f32:3f800000"}] + [{"name": "c%d" % i, "expr": "array(c%d, c%d)" % (i - 1, i - 1), "nonscalar": True} for i in range(1, d)]
        K["entries"].append({"name": "main", "stage": "compute", "params": [], "wg": ["1"], "body": [{"k": "access", "g": "buf", "how": "load"}]})
        cases.append(("const-dag-d%d" % d, K))
    for d in (1, 2, 3):
        cases.append(("else-if-chain-x%d" % d, nested("if_chain", d)))
    for gno in ("200000000", "4294967295"):
        Gx = _base([{"name": "far", "space": "uniform", "group": gno, "binding": "0", "ty": VEC4}, {"name": "near", "space": "uniform", "group": "0", "binding": gno, "ty": VEC4}])
        Gx["entries"].append({"name": "main", "stage": "compute", "params": [], "wg": ["1"], "body": [{"k": "access", "g": "far", "how": "load"}, {"k": "access", "g": "near", "how": "load"}]})
        cases.append(("far-group-%s" % gno, Gx))
    # many unrelated types declared before the tower (type handles beyond any small fixed-size set)
    for pad, l in [(70, 12), (70, 20), (130, 24), (300, 26)]:
        T = struct_tower(l)
        T["structs"] = [{"name": "Pad%d" % i, "members": [{"name": "p", "ty": {"k": "array", "n": i + 2, "e": {"k": "scalar", "s": "f32"}}}]} for i in range(pad)] + T["structs"]
        T["globals"].append({"name": "pads", "space": "storage_r", "group": "0", "binding": "7", "ty": {"k": "struct", "name": "Pad0"}})
        cases.append(("tower-padded%d-l%d" % (pad, l), T))
    return [{"id": "grow-" + n, "family": "growth", "S": S, "opts": opts(mv=("rust", "glam", "nalgebra")[i % 3] if ("tower" in n or "nested-array" in n) else "rust")} for i, (n, S) in enumerate(cases)] \
        + [{"id": "grow-" + n + "-glam", "family": "growth", "S": S, "opts": opts(mv="glam", enc=True)} for n, S in cases if "nested-array" in n]


# ------------------------------------------------------------------ C13 push constants
def leaf_table():
    t = []
    for sc in SCALARS:
        t.append({"k": "scalar", "s": sc})
        for n in (2, 3, 4):
            t.append({"k": "vec", "n": n, "s": sc})
    for c in (2, 3, 4):
        for r in (2, 3, 4):
            t.append({"k": "mat", "c": c, "r": r, "s": "f32"})
    return t


def push_cases(rng, n):
    cases = []
    leafs = leaf_table()
    i = 0

    def mk(ty, structs, pattern, stages, extra_binding):
        nonlocal i
        S = {"structs": structs, "globals": [], "consts": [], "overrides": [], "functions": [], "entries": []}
        if extra_binding:
            S["globals"].append({"name": "ub", "space": "uniform", "group": "0", "binding": "0", "ty": VEC4})
        if ty is not None:
            S["globals"].append({"name": "pc", "space": "push", "ty": ty})
            if i % 7 == 3:
                # a second push constant declaration that no entry point reaches (the first one is the module's push constant block)
                S["globals"].append({"name": "pc_unused", "space": "push", "ty": {"k": "vec", "n": 4, "s": "f32"}})
        acc = [{"k": "access", "g": "pc", "how": rng.choice(["load", "load", "addr"])}] if ty is not None else []
        # helper chain of depth 2: outer (touches no global) -> inner (reads pc)
        if extra_binding:
            S["functions"].append({"name": "all_bindings", "ret": False, "body": [{"k": "access", "g": "ub", "how": "load"}]})
        S["functions"].append({"name": "inner", "ret": rng.random() < 0.5, "body": list(acc)})
        S["functions"].append({"name": "outer", "ret": rng.random() < 0.5, "body": [{"k": "call", "f": "inner", "expr": True}]})
        for k, st in enumerate(stages):
            pat = pattern[k % len(pattern)]
            body = []
            if pat == "direct":
                body = list(acc)
            elif pat == "helper":
                body = [{"k": "call", "f": "inner", "expr": False}]
            elif pat == "nested":
                body = [wrap(rng, {"k": "call", "f": "outer", "expr": True}, rng.randint(0, 2))]
            if extra_binding and rng.random() < 0.5:
                # the bound resource after, or in front of, whatever reaches the push constant (directly or through a helper of its own)
                ub = {"k": "access", "g": "ub", "how": "load"} if i % 2 else {"k": "call", "f": "all_bindings", "expr": False}
                if i % 4 < 2:
                    body.append(ub)
                else:
                    body.insert(0, ub)
            e = {"name": "e%d" % k, "stage": st, "params": [], "body": body, "wg": ["1"] if st == "compute" else []}
            S["entries"].append(e)
        if extra_binding and ty is not None and i % 5 == 2 and S["entries"]:
            st0 = S["entries"][-1]["stage"]
            S["entries"].insert(0, {"name": "e_first", "stage": st0, "params": [], "wg": ["1"] if st0 == "compute" else [], "body": [{"k": "access", "g": "ub", "how": "load"}]})
            S["entries"].append({"name": "e_last", "stage": st0, "params": [], "wg": ["1"] if st0 == "compute" else [], "body": [{"k": "call", "f": "inner", "expr": False}]})
        if i % 3 == 1:
            # variables without a binding declared in front of the push constant and used by OTHER stages than it
            # (tables indexed by declaration position)
            front = [{"name": "pv_state", "space": "private", "ty": {"k": "scalar", "s": "f32"}}]
            if i % 2:
                front.append({"name": "pv_more", "space": "private", "ty": VEC4})
            S["globals"] = front + S["globals"]
            used = {e["stage"] for e in S["entries"] if e["body"]}
            other = [st for st in ("compute", "fragment", "vertex") if st not in used] or ["compute"]
            S["entries"].append({"name": "e_front", "stage": other[0], "params": [], "wg": ["1"] if other[0] == "compute" else [],
                                 "body": [{"k": "access", "g": g["name"], "how": "load"} for g in front]})
        cases.append({"id": "push-%05d" % i, "family": "push", "S": S, "opts": opts(validate=rng.choice(["none", "all"]))})
        i += 1
    pats = [["none"], ["direct"], ["helper"], ["nested"], ["nested", "none"], ["none", "nested"], ["direct", "nested", "none"], ["helper", "direct"]]
    stage_sets = [[], ["vertex"], ["fragment"], ["compute"], ["vertex", "fragment"], ["fragment", "vertex"], ["vertex", "fragment", "compute"],
                  ["compute", "compute"], ["fragment", "fragment", "vertex"], ["vertex", "compute"]]
    # every leaf type once with every usage pattern class
    for t in leafs:
        mk(t, [], rng.choice(pats), rng.choice(stage_sets), rng.random() < 0.5)
    f1 = {"k": "scalar", "s": "f32"}
    for mem in ([{"name": "a", "ty": f1}, {"name": "b", "ty": f1, "size": 16}], [{"name": "a", "ty": f1}, {"name": "b", "ty": f1, "align": 16}],
                [{"name": "a", "ty": {"k": "vec", "n": 3, "s": "f32"}, "size": 32}, {"name": "b", "ty": f1}], [{"name": "a", "ty": f1, "align": 8, "size": 24}]):
        mk({"k": "struct", "name": "PushData"}, [{"name": "PushData", "members": mem}], ["direct"], ["vertex", "fragment"], False)
    # large push constants: 144, 192, 256 bytes (above every "guaranteed minimum")
    for ty in ({"k": "array", "n": 9, "e": VEC4}, {"k": "array", "n": 16, "e": VEC4}, {"k": "array", "n": 3, "e": {"k": "mat", "c": 4, "r": 4, "s": "f32"}}):
        mk(ty, [], ["direct", "nested"], ["vertex", "fragment"], False)
    mk({"k": "struct", "name": "PushData"}, [{"name": "PushData", "members": [{"name": "a", "ty": {"k": "mat", "c": 4, "r": 4, "s": "f32"}}, {"name": "b", "ty": {"k": "mat", "c": 4, "r": 4, "s": "f32"}}, {"name": "c", "ty": VEC4}]}],
       ["helper"], ["vertex", "compute"], True)
    while len(cases) < n:
        r = rng.random()
        structs = []
        if r < 0.1:
            ty = None
        elif r < 0.45:
            ty = rng.choice(leafs)
        elif r < 0.6:
            ty = {"k": "array", "n": rng.randint(1, 4), "e": rng.choice(leafs)}
        else:
            mem = [{"name": "m%d" % j, "ty": rng.choice(leafs + [{"k": "array", "n": 2, "e": rng.choice(leafs)}])} for j in range(rng.randint(1, 4))]
            structs = [{"name": "PushData", "members": mem}]
            if rng.random() < 0.3:
                structs = [{"name": "Inner", "members": [{"name": "v", "ty": rng.choice(leafs)}]}] + structs
                structs[1]["members"].append({"name": "tail", "ty": {"k": "struct", "name": "Inner"}})
            ty = {"k": "struct", "name": "PushData"}
        mk(ty, structs, rng.choice(pats), rng.choice(stage_sets), rng.random() < 0.5)
    return cases


# ------------------------------------------------------------------ struct roles (C09 C01 C05 C06 C07)
VERTEXABLE = [{"k": "scalar", "s": sc} for sc in SCALARS] + [{"k": "vec", "n": n, "s": sc} for n in (2, 3, 4) for sc in SCALARS]
VERTEX_F64 = [{"k": "scalar", "s": "f64"}] + [{"k": "vec", "n": n, "s": "f64"} for n in (2, 3, 4)]
FLOATVECS = [{"k": "scalar", "s": "f32"}] + [{"k": "vec", "n": n, "s": "f32"} for n in (2, 3, 4)]


def io_struct(rng, name, types, n_members, builtins=(), sparse=True, prefix="a"):
    locs = rng.sample(range(0, 8 if sparse else n_members), n_members)
    if rng.random() < 0.5:
        locs.sort()
    mem = [{"name": ("_%s%d" if rng.random() < 0.12 else "%s%d") % (prefix, j), "ty": rng.choice(types), "io": {"k": "loc", "n": locs[j]}} for j in range(n_members)]
    for b in builtins:
        mem.insert(rng.randint(0, len(mem)), {"name": "bi_" + b, "ty": {"k": "vec", "n": 4, "s": "f32"} if b == "position" else
                                              {"k": "scalar", "s": "bool"} if b == "front_facing" else
                                              {"k": "scalar", "s": "f32"} if b == "frag_depth" else {"k": "scalar", "s": "u32"}, "io": {"k": "builtin", "b": b}})
    return {"name": name, "members": mem}


def host_members(rng, space, inner=None, big_arrays=False):
    mem = []
    for j in range(rng.randint(1, 5)):
        r = rng.random()
        if space == "uniform":
            if r < 0.55:
                t = rand_leaf(rng)
            elif r < 0.8:
                t = {"k": "array", "n": rng.choice([1, 2, 3, 4, 33, 40] if big_arrays else [1, 2, 3, 4]), "e": rng.choice([{"k": "vec", "n": 4, "s": rng.choice(SCALARS)}, {"k": "mat", "c": 4, "r": 4, "s": "f32"}])}
            elif inner:
                t = {"k": "struct", "name": inner}
            else:
                t = rand_leaf(rng)
        else:
            if r < 0.5:
                t = rand_leaf(rng)
            elif r < 0.75:
                t = {"k": "array", "n": rng.choice([1, 2, 3, 5, 33, 64, 4097, 8192] if big_arrays else [1, 2, 3, 5]), "e": rng.choice([rand_leaf(rng), {"k": "array", "n": rng.choice([2, 3]), "e": rand_leaf(rng, allow_mat=False)}])}
            elif r < 0.85 and space == "storage_rw":
                t = rng.choice([{"k": "atomic", "s": "u32"}, {"k": "atomic", "s": "i32"}, {"k": "atomic", "s": "f32"}, {"k": "array", "n": 4, "e": {"k": "atomic", "s": "f32"}}])
            elif inner:
                t = rng.choice([{"k": "struct", "name": inner}, {"k": "array", "n": 2, "e": {"k": "struct", "name": inner}}])
            else:
                t = rand_leaf(rng)
        mem.append({"name": (rng.choice(["h\u00f6he", "\u0394t", "viewProj", "N", "texCoord0", "m_Matrix"]) + str(j) if rng.random() < 0.1 else "gen" if rng.random() < 0.03 and not any(m["name"] == "gen" for m in mem) else "_pad%d" % j if rng.random() < 0.12 else "_padding" if rng.random() < 0.03 and not any(m["name"] == "_padding" for m in mem) else "f%d" % j), "ty": t})
    return mem


ENTRY_NAMES = {"vs_main": ["vs_main", "vs_na\u00efve", "VS_Main", "gr\u00f6\u00dfe_vs", "v", "vertexMain", "vsMain_2"], "fs_main": ["fs_main", "fs_caf\u00e9", "fragment\u03c3", "fsMain2"],
               "cs_main": ["cs_main", "\u03c3\u03ba\u03b9\u03ac", "update_particles", "cs\u00df", "computeMain", "CSMain", "cs_Main2"], "vs_shadow": ["vs_shadow", "shadow_\u00e9"]}


def multi_role_shader(rng, entry_names=False):
    """structs that play several roles at once (input of one or more vertex entries, fragment input, fragment result, reachable from a
    global, nested in a host struct), several vertex entries with different input structs that reuse location numbers, entry points in
    any declaration order (a consumer before its producer)"""
    S = {"structs": [], "globals": [], "consts": [], "overrides": [], "functions": [], "entries": []}
    n = rng.randint(2, 4)
    roles = {}
    for i in range(n):
        name = "R%d" % i
        rs = {r for r in ("vin", "fin", "fout", "global", "nested") if rng.random() < 0.4}
        if i == 0:
            rs.add("vin")
        if "nested" in rs:
            rs.discard("global")
        ints = "fin" not in rs
        types = FLOATVECS + ([{"k": "scalar", "s": "u32"}, {"k": "vec", "n": 2, "s": "i32"}, {"k": "vec", "n": 4, "s": "u32"}] if ints else [])
        nm = rng.randint(1, 3)
        base = rng.choice([0, 0, 1, 2])            # overlapping location numbers between structs on purpose
        locs = rng.sample(range(base, base + nm + 1), nm)
        S["structs"].append({"name": name, "members": [{"name": "f%d_%d" % (i, j), "ty": rng.choice(types), "io": {"k": "loc", "n": locs[j]}} for j in range(nm)]})
        roles[name] = rs
    locs_of = {d["name"]: {m["io"]["n"] for m in d["members"]} for d in S["structs"]}
    b = [0]

    def bind(name, space, ty):
        S["globals"].append({"name": name, "space": space, "group": "0", "binding": str(b[0]), "ty": ty})
        b[0] += 1
    for name, rs in roles.items():
        if "global" in rs:
            bind("g_" + name.lower(), rng.choice(["storage_r", "storage_rw", "uniform"]), {"k": "struct", "name": name})
        if "nested" in rs:
            S["structs"].append({"name": "Host" + name, "members": [{"name": "head", "ty": {"k": "vec", "n": 4, "s": "f32"}}, {"name": "inner", "ty": {"k": "struct", "name": name}}]})
            bind("h_" + name.lower(), rng.choice(["storage_r", "uniform"]), {"k": "struct", "name": "Host" + name})

    def body():
        return [{"k": "access", "g": gl["name"], "how": "load"} for gl in S["globals"] if rng.random() < 0.6]
    vins = [k for k, rs in roles.items() if "vin" in rs]
    entries = []
    for e in range(rng.randint(1, 3)):
        chosen, used = [], set()
        for k in rng.sample(vins, len(vins)):
            if not (locs_of[k] & used) and (not chosen or rng.random() < 0.6):
                chosen.append(k)
                used |= locs_of[k]
        params = [{"k": "struct", "name": "in_%s" % k.lower(), "ty": k} for k in chosen]
        if rng.random() < 0.3:
            params.append({"k": "builtin", "name": "vidx", "b": "vertex_index"})
        entries.append({"name": "vs_%d" % e, "stage": "vertex", "params": params, "result": {"k": "builtin", "b": "position"}, "body": body(), "wg": []})
    fins = [k for k, rs in roles.items() if "fin" in rs]
    fouts = [k for k, rs in roles.items() if "fout" in rs]
    for e in range(rng.randint(1, 2)):
        fe = {"name": "fs_%d" % e, "stage": "fragment", "params": [], "body": body(), "wg": []}
        if fins and rng.random() < 0.8:
            k = rng.choice(fins)
            fe["params"].append({"k": "struct", "name": "in_%s" % k.lower(), "ty": k})
        if fouts and rng.random() < 0.8:
            fe["result"] = {"k": "struct", "ty": rng.choice(fouts)}
        elif rng.random() < 0.5:
            fe["result"] = {"k": "loc", "n": 0, "ty": {"k": "vec", "n": 4, "s": "f32"}}
        entries.append(fe)
    if rng.random() < 0.3:
        entries.append({"name": "cs_0", "stage": "compute", "params": [], "body": body(), "wg": ["8"]})
    rng.shuffle(entries)
    S["entries"] = entries
    return S, False


def role_shader(rng, big_arrays=True, entry_names=False, rename=None, multi=None):
    if multi is None:
        multi = rng.random() < 0.2
    if multi:
        S, has_rt = multi_role_shader(rng)
        if rng.random() < 0.3:
            rename_structs(S, rng)
        if rng.random() < 0.25:
            add_aliases(S, rng)
        return S, has_rt
    S, has_rt = role_shader0(rng, big_arrays, entry_names)
    if rename is None:
        rename = rng.random() < 0.35
    if rename:
        rename_structs(S, rng)
    if rng.random() < 0.3:
        restyle_globals(S, rng, 0.6)
    if rng.random() < 0.25:
        add_aliases(S, rng)
    if rng.random() < 0.2:
        rng.shuffle(S["structs"])     # WGSL allows use before declaration
    if rng.random() < 0.3:
        S["decor"] = [d for d in ("diagnostic", "const_assert", "invariant", "interpolate", "interpolate_vin") if rng.random() < 0.6]
    return S, has_rt


def role_shader0(rng, big_arrays=True, entry_names=False):
    S = {"structs": [], "globals": [], "consts": [], "overrides": [], "functions": [], "entries": []}
    g = [0]

    def bind(name, space, ty):
        S["globals"].append({"name": name, "space": space, "group": str(g[0] // 3), "binding": str(g[0] % 3), "ty": ty})
        g[0] += 1
    # vertex side
    vparams = []
    if rng.random() < 0.9:
        bi = [b for b in ("vertex_index", "instance_index") if rng.random() < 0.25]
        # now and then with 64-bit float attributes (Float64 formats; judged on the recording device only)
        S["structs"].append(io_struct(rng, "VertexInput", VERTEXABLE + (VERTEX_F64 * 3 if rng.random() < 0.12 else []), rng.randint(1, 4), bi, prefix="v"))
        vparams.append({"k": "struct", "name": "vertex_in", "ty": "VertexInput"})
        if rng.random() < 0.4:
            st = io_struct(rng, "InstanceInput", VERTEXABLE, rng.randint(1, 3), prefix="i")
            for m in st["members"]:
                m["io"]["n"] += 8
            S["structs"].append(st)
            vparams.insert(rng.randint(0, 1), {"k": "struct", "name": "instance_in", "ty": "InstanceInput"})
    if rng.random() < 0.3:
        vparams.append({"k": "builtin", "name": "vidx", "b": "vertex_index"})
    vres = {"k": "builtin", "b": "position"}
    fparams = []
    if rng.random() < 0.6:
        S["structs"].append(io_struct(rng, "VertexOutput", FLOATVECS, rng.randint(1, 3), ["position"], sparse=False, prefix="o"))
        vres = {"k": "struct", "ty": "VertexOutput"}
        if rng.random() < 0.7:
            fparams.append({"k": "struct", "name": "frag_in", "ty": "VertexOutput"})
    if not fparams and rng.random() < 0.6:
        S["structs"].append(io_struct(rng, "FragmentInput", FLOATVECS, rng.randint(1, 3), [b for b in ("position", "front_facing") if rng.random() < 0.3], sparse=False, prefix="q"))
        fparams.append({"k": "struct", "name": "frag_in", "ty": "FragmentInput"})
    fres = None
    r = rng.random()
    if r < 0.4:
        S["structs"].append(io_struct(rng, "FragmentOutput", [{"k": "vec", "n": 4, "s": "f32"}], rng.randint(1, 3), [b for b in ("frag_depth", "sample_mask") if rng.random() < 0.3], sparse=rng.random() < 0.3, prefix="c"))
        fres = {"k": "struct", "ty": "FragmentOutput"}
        if rng.random() < 0.15:
            # dual-source blending: two outputs at location 0, the second one marked as the second blend source
            S["structs"][-1]["members"] = [{"name": "c_src0", "ty": {"k": "vec", "n": 4, "s": "f32"}, "io": {"k": "loc", "n": 0}},
                                           {"name": "c_src1", "ty": {"k": "vec", "n": 4, "s": "f32"}, "io": {"k": "loc", "n": 0, "blend": True}}]
    elif r < 0.8:
        fres = {"k": "loc", "n": rng.choice([0, 0, 0, 1, 3]), "ty": {"k": "vec", "n": 4, "s": "f32"}}
    # host side
    has_rt = False
    if rng.random() < 0.5:
        S["structs"].append({"name": "Inner", "members": [{"name": "v", "ty": {"k": "vec", "n": 4, "s": "f32"}}] + host_members(rng, "uniform")[:2]})
    inner = "Inner" if any(x["name"] == "Inner" for x in S["structs"]) else None
    if rng.random() < 0.7:
        S["structs"].append({"name": "Uniforms", "members": host_members(rng, "uniform", inner, big_arrays)})
        bind("uniforms", "uniform", {"k": "struct", "name": "Uniforms"})
    if rng.random() < 0.6:
        S["structs"].append({"name": "Store", "members": host_members(rng, "storage_rw", inner, big_arrays)})
        if rng.random() < 0.35:
            # nested structs whose alignment is below 16, at offsets that are not multiples of 16 (storage buffers allow that)
            small = rng.choice([[{"k": "scalar", "s": "f32"}, {"k": "scalar", "s": "u32"}], [{"k": "vec", "n": 2, "s": "f32"}], [{"k": "scalar", "s": "i32"}], [{"k": "vec", "n": 2, "s": "u32"}, {"k": "scalar", "s": "f32"}]])
            S["structs"].append({"name": "Small", "members": [{"name": "s%d" % j, "ty": t} for j, t in enumerate(small)]})
            ms = S["structs"][-2]["members"]
            ms.insert(rng.randint(1, len(ms)), {"name": "small_a", "ty": {"k": "struct", "name": "Small"}})
            if rng.random() < 0.5:
                ms.append({"name": "small_b", "ty": rng.choice([{"k": "struct", "name": "Small"}, {"k": "array", "n": 3, "e": {"k": "struct", "name": "Small"}}])})
        bind("store", "storage_rw", rng.choice([{"k": "struct", "name": "Store"}, {"k": "array", "n": 3, "e": {"k": "struct", "name": "Store"}}]))
    if rng.random() < 0.2:
        S["structs"].append({"name": "Cell", "members": [{"name": "c0", "ty": {"k": "vec", "n": 4, "s": "f32"}}, {"name": "c1", "ty": {"k": "scalar", "s": "u32"}}]})
        bind("grid", "storage_r", {"k": "array", "n": 2, "e": {"k": "array", "n": 3, "e": {"k": "struct", "name": "Cell"}}})
    if rng.random() < 0.3:
        el = rng.choice([{"k": "scalar", "s": "u32"}, {"k": "vec", "n": 4, "s": "f32"}, {"k": "vec", "n": 3, "s": "f32"}, {"k": "mat", "c": 3, "r": 3, "s": "f32"}] + ([{"k": "struct", "name": inner}] if inner else []))
        S["structs"].append({"name": "Growable", "members": [{"name": rng.choice(["count", "length", "len", "size", "capacity"]), "ty": {"k": "scalar", "s": "u32"}}, {"name": "items", "ty": {"k": "rtarray", "e": el}}]})
        bind("growable", rng.choice(["storage_r", "storage_rw"]), {"k": "struct", "name": "Growable"})
        has_rt = True
    if rng.random() < 0.25:
        S["structs"].append({"name": "PushData", "members": host_members(rng, "storage_r")[:3]})
        S["globals"].append({"name": "pc", "space": "push", "ty": {"k": "struct", "name": "PushData"}})
    if rng.random() < 0.2:
        S["structs"].append({"name": "Scratch", "members": [{"name": "s%d" % j, "ty": ({"k": "scalar", "s": "bool"} if rng.random() < 0.2 else {"k": "vec", "n": rng.choice([2, 3, 4]), "s": "bool"} if rng.random() < 0.1 else rand_leaf(rng))} for j in range(rng.randint(1, 3))]})
        S["globals"].append({"name": "scratch", "space": rng.choice(["workgroup", "private"]), "ty": {"k": "struct", "name": "Scratch"}})
    if rng.random() < 0.15:
        # a struct reachable only through a workgroup array whose length is an override
        S["structs"].append({"name": "TileSample", "members": [{"name": "t%d" % j, "ty": rand_leaf(rng)} for j in range(rng.randint(1, 2))]})
        S["overrides"].append({"name": "tile_size", "ty": "u32", "default": "16u"})
        S["globals"].append({"name": "tile", "space": "workgroup", "ty": {"k": "array", "n": 4, "len": "tile_size", "e": {"k": "struct", "name": "TileSample"}}})
    if rng.random() < 0.25 and any(x["name"] == "VertexInput" for x in S["structs"]) and not any("io" in m and m["io"]["k"] == "builtin" for x in S["structs"] if x["name"] == "VertexInput" for m in x["members"]):
        bind("vertex_pull", "storage_r", {"k": "array", "n": 4, "e": {"k": "struct", "name": "VertexInput"}})
    if rng.random() < 0.3:
        bind("tex", "handle", {"k": "tex", "class": "sampled", "dim": "2d", "kind": "f32"})
        bind("samp", "handle", {"k": "sampler", "cmp": False})
    rng.shuffle(S["structs"]) if False else None
    # dependencies must be declared before use is not required in WGSL; keep declaration order
    def uses(stage):
        body = []
        for gl in S["globals"]:
            if gl["space"] == "workgroup" and stage != "compute":
                continue
            if rng.random() < 0.5:
                hs = hows_for(gl, S)
                hs = [h for h in hs if not (stage == "vertex" and h[0] in ("store", "atomic", "tex_store"))] or hs[:1]
                if hs:
                    how, comp = rng.choice(hs)
                    n = {"k": "access", "g": gl["name"], "how": how}
                    if comp:
                        n["with"] = comp
                    body.append(n)
        return body
    if rng.random() < 0.2:
        # a struct that only a module-scope constant uses (never emitted), and a struct with exactly the members of another one (emitted like it)
        S["structs"].append({"name": "ConstOnly", "members": [{"name": "k0", "ty": {"k": "scalar", "s": "f32"}}, {"name": "k1", "ty": {"k": "vec", "n": 2, "s": "f32"}}]})
        S["consts"].append({"name": "FOG", "expr": "ConstOnly(1.0, vec2<f32>(2.0, 3.0))", "nonscalar": True})
    if rng.random() < 0.2 and any(x["name"] == "Store" for x in S["structs"]):
        st = [x for x in S["structs"] if x["name"] == "Store"][0]
        S["structs"].append({"name": "StoreTwin", "members": json_copy(st["members"])})
        bind("store_twin", "storage_r", {"k": "struct", "name": "StoreTwin"})
    if rng.random() < 0.2 and any(x["name"] in ("VertexInput", "FragmentInput") for x in S["structs"]):
        tgt = rng.choice([x["name"] for x in S["structs"] if x["name"] in ("VertexInput", "FragmentInput")])
        S["functions"].append({"name": "scaled", "ret": True, "via_struct": tgt, "body": []})
    if rng.random() < 0.2:
        # a struct that lives only in function-local variables, handed to a helper by pointer (never host-visible)
        S["structs"].append({"name": "LocalOnly", "members": [{"name": "t0", "ty": {"k": "vec", "n": 3, "s": "f32"}}, {"name": "t1", "ty": {"k": "scalar", "s": "u32"}}]})
        S["functions"].append({"name": "by_ptr", "ret": True, "ptr": True, "ptr_struct": "LocalOnly", "body": []})
    # variables without a binding may be declared anywhere between the resources
    plain = [g_ for g_ in S["globals"] if "group" not in g_]
    if plain and rng.random() < 0.6:
        rest = [g_ for g_ in S["globals"] if "group" in g_]
        for g_ in plain:
            rest.insert(rng.randint(0, len(rest)), g_)
        S["globals"] = rest
    # input structs made of builtins only
    has_bi = any(m.get("io", {}).get("k") == "builtin" for x in S["structs"] if x["name"] == "VertexInput" for m in x["members"]) or any(p_["k"] == "builtin" for p_ in vparams)
    if not has_bi and rng.random() < 0.2:
        S["structs"].append({"name": "VertexIndices", "members": [{"name": "vertex", "ty": {"k": "scalar", "s": "u32"}, "io": {"k": "builtin", "b": "vertex_index"}},
                                                                     {"name": "instance", "ty": {"k": "scalar", "s": "u32"}, "io": {"k": "builtin", "b": "instance_index"}}]})
        vparams.insert(rng.randint(0, len(vparams)), {"k": "struct", "name": "indices", "ty": "VertexIndices"})
    cparams = []
    if rng.random() < 0.4:
        S["structs"].append({"name": "ComputeInput", "members": [{"name": "gid", "ty": {"k": "vec", "n": 3, "s": "u32"}, "io": {"k": "builtin", "b": "global_invocation_id"}}]
                             + ([{"name": "lidx", "ty": {"k": "scalar", "s": "u32"}, "io": {"k": "builtin", "b": "local_invocation_index"}}] if rng.random() < 0.5 else [])})
        cparams.append({"k": "struct", "name": "cin", "ty": "ComputeInput"})
    if rng.random() < 0.25 and any(x["name"] in ("ComputeInput", "VertexIndices") for x in S["structs"]):
        # a struct made of builtins only that is also the type of a storage variable
        nm_ = [x["name"] for x in S["structs"] if x["name"] in ("ComputeInput", "VertexIndices")][0]
        bind("builtin_buf", "storage_r", {"k": "struct", "name": nm_})
    S["entries"].append({"name": "vs_main", "stage": "vertex", "params": vparams, "result": vres, "body": uses("vertex"), "wg": []})
    if rng.random() < 0.3 and vparams:
        S["entries"].append({"name": "vs_shadow", "stage": "vertex", "params": list(reversed(vparams)), "result": {"k": "builtin", "b": "position"}, "body": uses("vertex"), "wg": []})
    if rng.random() < 0.3:
        taken = {m["io"]["n"] for x in S["structs"] if fparams and x["name"] == fparams[0]["ty"] for m in x["members"] if m.get("io", {}).get("k") == "loc"}
        free = [n for n in range(0, 12) if n not in taken]
        has_ff = any(m.get("io", {}).get("b") == "front_facing" for x in S["structs"] if fparams and x["name"] == fparams[0]["ty"] for m in x["members"])
        fparams = fparams + [{"k": "loc", "name": "extra", "n": rng.choice(free), "ty": rng.choice(FLOATVECS)}] + ([] if has_ff else [{"k": "builtin", "name": "ff", "b": "front_facing"}])
        if rng.random() < 0.5:
            fparams.reverse()
    e = {"name": "fs_main", "stage": "fragment", "params": fparams, "body": uses("fragment"), "wg": []}
    if fres:
        e["result"] = fres
    S["entries"].append(e)
    if rng.random() < 0.5:
        if rng.random() < 0.25:
            # a workgroup size given by constant expressions
            S["consts"].append({"name": "WG_N", "decl": "u32", "expr": "4u", "expect": "u32:4"})
            S["entries"].append({"name": "cs_main", "stage": "compute", "params": cparams, "body": uses("compute"), "wg": rng.choice([["WG_N"], ["8", "WG_N"], ["WG_N * 2u", "1", "WG_N"]])})
        else:
            S["entries"].append({"name": "cs_main", "stage": "compute", "params": cparams, "body": uses("compute"), "wg": [str(rng.choice([1, 8, 64]))] + ([str(rng.choice([1, 4]))] if rng.random() < 0.5 else [])})
    if cparams and not any(e["stage"] == "compute" for e in S["entries"]) and not any(g_["ty"].get("name") == "ComputeInput" for g_ in S["globals"]):
        S["structs"] = [x for x in S["structs"] if x["name"] != "ComputeInput"]
    if entry_names:
        for e in S["entries"]:
            e["name"] = rng.choice(ENTRY_NAMES[e["name"]])
    return S, has_rt


STRUCT_NAME_STYLES = [lambda n: n + "2D", lambda n: "HTTP" + n, lambda n: n[:2] + "__" + n[2:], lambda n: n[0], lambda n: n, lambda n: n, lambda n: n.lower(), lambda n: "".join("_" + c.lower() if c.isupper() and i else c.lower() for i, c in enumerate(n)),
                      lambda n: n[:3] + "_" + n[3:], lambda n: n[0].lower() + n[1:], lambda n: n + "_PBR", lambda n: n.upper(),
                      lambda n: "_" + n, lambda n: "_" + n.lower() + "_"]


def rename_structs(S, rng):
    """give the structs of S names in other styles (snake_case, lower, Mixed_Underscore, camelCase, UPPER): WGSL accepts them all"""
    mp = {}
    used = set()
    for d in S["structs"]:
        new = rng.choice(STRUCT_NAME_STYLES)(d["name"])
        if new in used or new in ("in", "box", "dyn", "uniforms", "store", "inner", "data"):
            new = d["name"]
        used.add(new)
        mp[d["name"]] = new

    def fix(t):
        if isinstance(t, dict):
            if t.get("k") == "struct" and "name" in t:
                t["name"] = mp.get(t["name"], t["name"])
            for v in t.values():
                fix(v)
        elif isinstance(t, list):
            for v in t:
                fix(v)
    import re as _re
    for c_ in S.get("consts", []):
        for a, b in mp.items():
            c_["expr"] = _re.sub(r"\b%s\b" % _re.escape(a), b, c_["expr"])
    for f_ in S.get("functions", []):
        if f_.get("ptr_struct") in mp:
            f_["ptr_struct"] = mp[f_["ptr_struct"]]
        if f_.get("via_struct") in mp:
            f_["via_struct"] = mp[f_["via_struct"]]
    for d in S["structs"]:
        d["name"] = mp[d["name"]]
        fix(d["members"])
    for g in S["globals"]:
        fix(g["ty"])
    for e in S["entries"]:
        for p_ in e["params"]:
            if p_["k"] == "struct":
                p_["ty"] = mp.get(p_["ty"], p_["ty"])
        if e.get("result", {}).get("k") == "struct":
            e["result"]["ty"] = mp.get(e["result"]["ty"], e["result"]["ty"])
    return S


def all_opts(rustfmt=False, validate="none", mvs=("rust", "glam", "nalgebra")):
    out = []
    for mv in mvs:
        for bits in range(16):
            out.append(opts(bmv=bool(bits & 1), bmh=bool(bits & 2), enc=bool(bits & 4), serde=bool(bits & 8), mv=mv, rustfmt=rustfmt, validate=validate))
    return out


def option_matrix_cases(rng, n_shaders, prefix, family, extra_variants=True):
    cases = []
    for i in range(n_shaders):
        S, has_rt = role_shader(rng)
        ov = all_opts()
        if extra_variants:
            ov.append(opts(validate="all"))
            ov.append(opts(bmv=True, bmh=True, enc=True, serde=True, mv="glam", validate="all"))
            ov.append(opts(rustfmt=True))
            ov.append(opts(bmv=True, enc=True, mv="glam", rustfmt=True))
        for j, o in enumerate(ov):
            cases.append({"id": "%s-%04d-%02d" % (prefix, i, j), "family": family, "S": S, "opts": o})
    return cases


# ------------------------------------------------------------------ C17 corruption families
INVALID_BUT_PARSABLE = [
    # uniform layout violation (array stride 4 in the uniform address space)
    ("layout-uniform-array", "struct U { a: array<f32, 4>, }\n@group(0) @binding(0) var<uniform> u: U;\n@fragment fn fs_main() { _ = u.a[0]; }\n"),
    # struct member of struct type at an offset that is not a multiple of 16 in uniform space
    ("layout-uniform-struct", "struct I { x: f32, }\nstruct U { a: f32, b: I, }\n@group(0) @binding(0) var<uniform> u: U;\n@fragment fn fs_main() { _ = u.a; }\n"),
    ("vertex-no-position", "@vertex fn vs_main() -> @location(0) vec4<f32> { return vec4<f32>(); }\n"),
    ("binding-collision", "@group(0) @binding(0) var<uniform> a: vec4<f32>;\n@group(0) @binding(0) var<uniform> b: vec4<f32>;\n@fragment fn fs_main() { _ = a; _ = b; }\n"),
    ("workgroup-in-fragment", "var<workgroup> w: array<u32, 4>;\n@fragment fn fs_main() { _ = w[0]; }\n"),
    ("missing-binding-attr", "var<uniform> u: vec4<f32>;\n@fragment fn fs_main() { _ = u; }\n"),
    ("f64-type", "struct S { d: f64, }\n@group(0) @binding(0) var<storage, read> s: S;\n@compute @workgroup_size(1) fn cs() { _ = s.d; }\n"),
    ("push-constant", "var<push_constant> pc: vec4<f32>;\n@fragment fn fs_main() { _ = pc; }\n"),
    ("fragment-bad-output", "@fragment fn fs_main() -> @builtin(position) vec4<f32> { return vec4<f32>(); }\n"),
    ("compute-zero-wg", "@compute @workgroup_size(0) fn cs() { }\n"),
    ("storage-texture-in-uniform", "@group(0) @binding(0) var<uniform> t: texture_2d<f32>;\n@fragment fn fs_main() { }\n"),
    ("write-to-readonly", "@group(0) @binding(0) var<storage, read> s: array<u32, 4>;\n@compute @workgroup_size(1) fn cs() { s[0] = 1u; }\n"),
    ("bool-in-uniform", "struct U { b: bool, }\n@group(0) @binding(0) var<uniform> u: U;\n@fragment fn fs_main() { }\n"),
    ("runtime-array-in-uniform", "@group(0) @binding(0) var<uniform> u: array<vec4<f32>>;\n@fragment fn fs_main() { }\n"),
    ("atomic-in-uniform", "@group(0) @binding(0) var<uniform> u: atomic<u32>;\n@fragment fn fs_main() { }\n"),
    ("vertex-input-no-location", "struct V { p: vec4<f32>, }\n@vertex fn vs_main(v: V) -> @builtin(position) vec4<f32> { return v.p; }\n"),
    ("duplicate-location", "struct V { @location(0) a: f32, @location(0) b: f32, }\n@vertex fn vs_main(v: V) -> @builtin(position) vec4<f32> { return vec4<f32>(v.a); }\n"),
    ("int-location-not-flat", "@fragment fn fs_main(@location(0) i: i32) { }\n"),
]
VALID_ODD = [
    ("workgroup-size-override", "override wx: u32 = 16u;\noverride wy: u32;\n@compute @workgroup_size(wx, wy) fn cs() { }\n"),
    ("workgroup-size-override-only", "override n: u32 = 8u;\n@group(0) @binding(0) var<storage, read_write> b: array<u32, 4>;\n@compute @workgroup_size(n) fn cs() { b[0] = n; }\n"),
    ("pointer-only", "@group(0) @binding(0) var<uniform> a: vec4<f32>;\n@group(0) @binding(1) var<storage, read_write> b: array<u32, 4>;\n@fragment fn fs_main() -> @location(0) vec4<f32> { let p = &a; let q = &b[1]; return vec4<f32>(); }\n"),
    ("uncalled-helper", "@group(0) @binding(0) var<uniform> a: vec4<f32>;\nfn never() -> vec4<f32> { return a; }\n@fragment fn fs_main() -> @location(0) vec4<f32> { return vec4<f32>(); }\n"),
    ("after-return", "@group(0) @binding(0) var<storage, read_write> b: array<u32, 4>;\nfn h() { return; }\n@compute @workgroup_size(1) fn cs() { h(); if (false) { b[0] = 1u; } }\n"),
    ("pointer-arg", "@group(0) @binding(0) var<storage, read_write> b: array<u32, 4>;\nvar<private> pv: u32;\nfn h(p: ptr<private, u32>) -> u32 { return *p; }\n@compute @workgroup_size(1) fn cs() { b[0] = h(&pv); }\n"),
    ("shadowing", "@group(0) @binding(0) var<uniform> a: vec4<f32>;\n@fragment fn fs_main() -> @location(0) vec4<f32> { let a = vec4<f32>(1.0); return a; }\n"),
    ("query-only", "@group(0) @binding(0) var<storage, read> r: array<vec4<f32>>;\n@group(0) @binding(1) var t: texture_2d<f32>;\n@vertex fn vs_main() -> @builtin(position) vec4<f32> { _ = arrayLength(&r); _ = textureDimensions(t); return vec4<f32>(); }\n"),
    ("two-entries-one-helper", "@group(0) @binding(0) var<uniform> a: vec4<f32>;\nfn h() -> vec4<f32> { return a; }\n@vertex fn vs_main() -> @builtin(position) vec4<f32> { return h(); }\n@fragment fn fs_main() -> @location(0) vec4<f32> { return h(); }\n"),
]
INJECT = ["\u00e9", "\u200b", "\ufeff", "\x00", '"', "\\", "{", "}", "\U0001F600", "\r", "\u2028", ";", "@", "/*", "*/", "//", "<", ">", "\t", "\x7f", "\u0301"]
SWAPS = [("f32", "i32"), ("u32", "f32"), ("vec4", "vec3"), ("var<uniform>", "var<storage>"), ("read_write", "read"), ("@vertex", "@fragment"),
         ("@fragment", "@compute @workgroup_size(1)"), ("@location(0)", ""), ("@builtin(position)", "@builtin(vertex_index)"), ("@group(0)", "@group(1)"),
         ("@binding(0)", "@binding(1)"), ("texture_2d", "texture_3d"), ("return", ""), ("let ", "var "), ("fn ", "fn fn"), (";", ""), ("->", "")]


def corruptions(rng, src, n):
    out = []
    L = len(src)
    for _ in range(n):
        k = rng.random()
        if L == 0:
            out.append(rng.choice(INJECT))
            continue
        if k < 0.2:
            out.append(src[:rng.randrange(L)])
        elif k < 0.32:
            i = rng.randrange(L)
            out.append(src[:i] + src[i + 1:])
        elif k < 0.42:
            i = rng.randrange(max(1, L - 1))
            out.append(src[:i] + src[i + 1:i + 2] + src[i:i + 1] + src[i + 2:])
        elif k < 0.6:
            i = rng.randrange(L + 1) if rng.random() < 0.85 else 0
            out.append(src[:i] + rng.choice(INJECT) + src[i:])
        elif k < 0.7:
            i = rng.randrange(L); j = min(L, i + rng.randint(1, 40))
            out.append(src[:j] + src[i:j] + src[j:])
        elif k < 0.95:
            a, b = rng.choice(SWAPS)
            idxs = [i for i in range(L) if src.startswith(a, i)]
            if idxs:
                i = rng.choice(idxs)
                out.append(src[:i] + b + src[i + len(a):])
            else:
                out.append(src[:rng.randrange(L)])
        else:
            i = rng.randrange(L); j = min(L, i + rng.randint(1, 60))
            out.append(src[:i] + src[j:])
    return out


CAPABILITY_SOURCES = [
    ("push-constant", "PUSH_CONSTANT", "var<push_constant> pc: vec4<f32>;\n@fragment fn fs_main() -> @location(0) vec4<f32> { return pc; }\n"),
    ("push-constant-unused", "PUSH_CONSTANT", "var<push_constant> pc: vec4<f32>;\n@fragment fn fs_main() -> @location(0) vec4<f32> { return vec4<f32>(1.0); }\n"),
    ("f64", "FLOAT64", "struct S { d: f64, }\n@group(0) @binding(0) var<storage, read> s: S;\n@compute @workgroup_size(1) fn cs() { _ = s.d; }\n"),
    ("i64", "SHADER_INT64", "@group(0) @binding(0) var<storage, read_write> s: array<i64, 2>;\n@compute @workgroup_size(1) fn cs() { s[0] = 1li; }\n"),
    ("primitive-index", "PRIMITIVE_INDEX", "@fragment fn fs_main(@builtin(primitive_index) p: u32) -> @location(0) vec4<f32> { return vec4<f32>(f32(p)); }\n"),
    ("clip-distances", "CLIP_DISTANCE", "struct VOut { @builtin(position) p: vec4<f32>, @builtin(clip_distances) c: array<f32, 1>, }\n@vertex fn vs_main() -> VOut { var o: VOut; return o; }\n"),
    ("cube-array", "CUBE_ARRAY_TEXTURES", "@group(0) @binding(0) var t: texture_cube_array<f32>;\n@group(0) @binding(1) var s: sampler;\n@fragment fn fs_main() -> @location(0) vec4<f32> { return textureSample(t, s, vec3<f32>(1.0), 0); }\n"),
    ("storage-format-16bit-norm", "STORAGE_TEXTURE_16BIT_NORM_FORMATS", "@group(0) @binding(0) var t: texture_storage_2d<r16unorm, write>;\n@compute @workgroup_size(1) fn cs() { textureStore(t, vec2<i32>(0), vec4<f32>(1.0)); }\n"),
    ("multisampled-shading", "MULTISAMPLED_SHADING", "@fragment fn fs_main(@builtin(sample_index) i: u32) -> @location(0) vec4<f32> { return vec4<f32>(f32(i)); }\n"),
    ("dual-source", "DUAL_SOURCE_BLENDING", "struct FOut { @location(0) a: vec4<f32>, @location(0) @second_blend_source b: vec4<f32>, }\n@fragment fn fs_main() -> FOut { var o: FOut; return o; }\n"),
    ("subgroup-vertex", "SUBGROUP_VERTEX_STAGE", "@vertex fn vs_main(@builtin(vertex_index) i: u32) -> @builtin(position) vec4<f32> { let s = subgroupAdd(f32(i)); return vec4<f32>(s); }\n"),
    ("subgroup", "SUBGROUP", "@compute @workgroup_size(1) fn cs(@builtin(subgroup_size) n: u32) { _ = n; }\n"),
    ("early-depth", "EARLY_DEPTH_TEST", "@fragment @early_depth_test fn fs_main() -> @location(0) vec4<f32> { return vec4<f32>(1.0); }\n"),
    ("atomic-64", "SHADER_INT64_ATOMIC_ALL_OPS", "@group(0) @binding(0) var<storage, read_write> a: atomic<u64>;\n@compute @workgroup_size(1) fn cs() { atomicAdd(&a, 1lu); }\n"),
]


# modules without any entry point that parse but do not validate (declaration-only files are validated like any other)
NO_ENTRY_INVALID = [
    ("uniform-array-stride", "@group(0) @binding(0) var<uniform> w: array<f32, 4>;\n"),
    ("resource-without-binding", "var<storage, read> s: array<u32, 4>;\n"),
    ("bad-helper", "var<private> p: u32;\nfn f() -> u32 { p = 1u; return p + 1u; }\nfn g(a: ptr<function, u32>) { f(); }\n@group(0) @binding(0) var<uniform> w: array<vec3<f32>, 2>;\n"),
    ("handle-in-struct", "struct S { t: texture_2d<f32>, }\n"),
    ("override-same-id", "@id(3) override a: f32 = 1.0;\n@id(3) override b: f32 = 2.0;\n@fragment fn fs_main() -> @location(0) vec4<f32> { return vec4<f32>(a + b); }\n"),
    ("override-vector", "override v: vec2<f32>;\n@fragment fn fs_main() -> @location(0) vec4<f32> { return vec4<f32>(v, v); }\n"),
    ("override-same-id-unused", "@id(0) override a: u32;\n@id(0) override b: u32;\n"),
    ("recursive-ok-but-bad-align", "struct S { @align(3) a: f32, }\n@group(0) @binding(0) var<storage, read> s: S;\n"),
]


def long_tail_sources():
    """an error near the start of the source, followed by a long tail of multi-byte text (renderers that cut the source by byte offsets)"""
    out = []
    tails = ["\u044b", "\u00e9x", "\u6570", "\U0001F600", "a\u00e9\u6570\U0001F600"]
    for i, t in enumerate(tails):
        for pad in range(4):
            tail = "// " + (t * 400)[:700] + "\n@fragment fn fs_main() {}\n// " + (t * 300) + "\n"
            out.append(("parse-%d-%d" % (i, pad), " " * pad + "fn f() { let x: u32 = 1.0; }\n" + tail))
            out.append(("valid-%d-%d" % (i, pad), " " * pad + "@group(0) @binding(0) var<uniform> w: array<f32, 4>;\n" + tail))
            out.append(("late-%d-%d" % (i, pad), " " * pad + tail + "@group(0) @binding(0) var<uniform> w: array<f32, 4>;\n" + tail))
    return out


def directive_sources():
    """global directives in front of an otherwise valid source: language extensions the front end knows but has not implemented, unknown
    ones, enable-extensions, diagnostic filters; in first position, after a comment, twice, and followed by a second parse error"""
    body = "@group(0) @binding(0) var<uniform> w: vec4<f32>;\n@fragment fn fs_main() -> @location(0) vec4<f32> { return w; }\n"
    dirs = ["requires pointer_composite_access;", "requires readonly_and_readwrite_storage_textures;", "requires unrestricted_pointer_parameters;",
            "requires packed_4x8_integer_dot_product;", "requires nonsense;", "requires pointer_composite_access, unrestricted_pointer_parameters;",
            "enable f16;", "enable dual_source_blending;", "enable clip_distances;", "enable nonsense;", "diagnostic(off, derivative_uniformity);",
            "diagnostic(error, nonsense);"]
    out = []
    for i, d in enumerate(dirs):
        out.append(("directive-%d" % i, d + "\n" + body))
        out.append(("directive-%d-c" % i, "// shared with the web build\n  " + d + "\n" + d + "\n" + body))
        out.append(("directive-%d-e" % i, d + "\n" + body + "fn broken( {\n"))
        out.append(("directive-%d-l" % i, body + d + "\n"))
    return out


def c17_cases(rng, seeds, n_per_seed, validate_sets=("none", "all")):
    """seeds: list of (name, valid WGSL text)"""
    cases = []
    k = 0
    for name, src in seeds:
        variants = [src] + corruptions(rng, src, n_per_seed)
        # every injectable character at the very start and the very end of the source
        if k < 40000:
            variants += [c + src for c in INJECT] + [src + c for c in INJECT]
        for v in variants:
            vs = list(validate_sets)
            if rng.random() < 0.15:
                vs.append(rng.choice(["nof64", "empty"]))
            for val in vs:
                cases.append({"id": "c17-%06d" % k, "family": "corrupt-" + name.split("-")[0], "wgsl": v, "opts": opts(validate=val)})
                k += 1
    for name, src in VALID_ODD:
        for val in ("none", "all", "nof64", "empty"):
            cases.append({"id": "c17-%06d" % k, "family": "valid-odd-" + name, "wgsl": src, "opts": opts(validate=val)})
            k += 1
    # sources that need one capability each, validated with that capability present, alone, missing, and with none at all:
    # the generator must reject exactly when the caller's validator does
    for name, cap, src in CAPABILITY_SOURCES:
        for val in ("none", "all", "empty", "all-" + cap, "only-" + cap):
            cases.append({"id": "c17-%06d" % k, "family": "capability-" + name, "wgsl": src, "opts": opts(validate=val)})
            k += 1
    for name, src in NO_ENTRY_INVALID + long_tail_sources() + directive_sources():
        for val in ("none", "all"):
            cases.append({"id": "c17-%06d" % k, "family": "semantic-" + name, "wgsl": src, "opts": opts(validate=val)})
            k += 1
    for name, src in INVALID_BUT_PARSABLE:
        for val in ("none", "all", "nof64", "empty"):
            cases.append({"id": "c17-%06d" % k, "family": "semantic-" + name, "wgsl": src, "opts": opts(validate=val)})
            k += 1
    return cases


# ------------------------------------------------------------------ C18 stress shaders: many candidates of every "pick one" kind
def stress_shaders(rng):
    out = []
    sizes = [{"k": "scalar", "s": "f32"}, {"k": "vec", "n": 2, "s": "f32"}, {"k": "vec", "n": 3, "s": "u32"}, {"k": "vec", "n": 4, "s": "f32"},
             {"k": "mat", "c": 4, "r": 4, "s": "f32"}, {"k": "array", "n": 8, "e": {"k": "vec", "n": 4, "s": "f32"}}]
    for used in (None, 1, 3):
        S = {"structs": [], "globals": [], "consts": [], "overrides": [], "functions": [], "entries": []}
        for i, t in enumerate(sizes):
            S["globals"].append({"name": "pc%d" % i, "space": "push", "ty": t})
        body = [{"k": "access", "g": "pc%d" % used, "how": "load"}] if used is not None else []
        S["entries"].append({"name": "fs_main", "stage": "fragment", "params": [], "body": body, "wg": []})
        S["entries"].append({"name": "cs_main", "stage": "compute", "params": [], "body": [], "wg": ["1"]})
        out.append(S)
    # many structs / globals / overrides / constants / entries
    S = {"structs": [], "globals": [], "consts": [], "overrides": [], "functions": [], "entries": []}
    for i in range(14):
        S["structs"].append({"name": "Block%d" % i, "members": [{"name": "m%d" % j, "ty": rand_leaf(rng)} for j in range(1 + i % 4)]})
        S["globals"].append({"name": "block%d" % i, "space": "storage_r", "group": str(i % 4), "binding": str(i // 4), "ty": {"k": "struct", "name": "Block%d" % i}})
    for i in range(10):
        S["overrides"].append({"name": "ov%d" % i, "ty": ["f32", "i32", "u32", "bool"][i % 4], **({"default": ["1.0", "2", "3u", "true"][i % 4]} if i % 2 else {}), **({"id": 100 - i} if i % 3 == 0 else {})})
        S["consts"].append({"name": "K%d" % i, "expr": ["1.5", "2", "3u", "true", "-4i"][i % 5]})
    for i in range(6):
        st = ["vertex", "fragment", "compute"][i % 3]
        S["entries"].append({"name": "entry%d" % i, "stage": st, "params": [], "wg": ["1"] if st == "compute" else [],
                             "body": [{"k": "access", "g": "block%d" % ((i * 5 + q) % 14), "how": "load"} for q in range(3)]})
    out.append(S)
    return out


# ------------------------------------------------------------------ C16 source strings
CLASS_CHARS = {"quote": '"', "backslash": "\\", "lbrace": "{", "rbrace": "}", "cr": "\r", "lf": "\n", "tab": "\t", "nul": "\x00", "digit": "7",
               "ctrl": "\x01", "del": "\x7f", "bmp": "\u00e9", "astral": "\U0001F600", "linesep": "\u2028", "apostrophe": "'", "plain": "x"}


def class_string(classes):
    return "".join(CLASS_CHARS[c] for c in classes)


def source_shader(text, rng=None):
    S = {"structs": [], "globals": [{"name": "u", "space": "uniform", "group": "0", "binding": "0", "ty": VEC4}], "consts": [], "overrides": [], "functions": [],
         "entries": [frag_entry(body=[{"k": "access", "g": "u", "how": "load"}])], "comment": text}
    return S


# ------------------------------------------------------------------ C15 constants
def f32_bits(x):
    import struct
    return "%08x" % struct.unpack("<I", struct.pack("<f", x))[0]


def f64_bits(x):
    import struct
    return "%016x" % struct.unpack("<Q", struct.pack("<d", x))[0]


def const_table(rng):
    """(name, decl, expr, expect-canon or None) over declared type x literal suffix x expression shape x value class"""
    import struct
    t = []
    k = [0]

    def add(decl, expr, expect):
        nonscalar = expr.startswith(("vec", "mat", "array"))
        t.append({"name": "K%d" % k[0], **({"decl": decl} if decl else {}), "expr": expr, **({"expect": expect} if expect else {}), **({"nonscalar": True} if nonscalar else {})})
        k[0] += 1
        return "K%d" % (k[0] - 1)
    # f32: plain, extremes, subnormals, negative zero, values needing 9 significant digits
    fvals = [0.0, 1.0, -1.0, 0.1, 3.14159, 16777216.0, 16777217.0, 3.4028235e38, -3.4028235e38, 1.17549435e-38, 1e-45, 1.00000005e-20, 8.5070592e37, 123456.79, 0.3333333432674408, 1e15, 9.999999e14, 1e-6, 9.99999e-7]
    for v in fvals:
        vv = struct.unpack("<f", struct.pack("<f", v))[0]
        lit = repr(vv) if "e" not in repr(vv) and "." in repr(vv) else ("%.9g" % vv)
        if "." not in lit and "e" not in lit:
            lit += ".0"
        add("f32", lit, "f32:" + f32_bits(vv))
        add(None, lit + "f", "f32:" + f32_bits(vv))
    # unsuffixed decimals within half an f64 ulp above / below an f32 rounding midpoint, written with 17 digits: the WGSL value is the
    # literal rounded to f64 first and to f32 second (re-reading the source text with a direct decimal -> f32 conversion differs by one ulp)
    for mid in ("1.0000000596046448", "1.0000000596046447", "1.0000001788139344", "0.10000000521540642", "16777217.000000002", "3.0000001192092896", "1.0000000596046449e10", "5.9604644775390626e-8"):
        v64 = float(mid)
        v32 = struct.unpack("<f", struct.pack("<f", v64))[0]
        add(None, mid, "f32:" + f32_bits(v32))
        add("f32", mid, "f32:" + f32_bits(v32))
    add("f32", "-0.0", "f32:80000000")
    add(None, "-0.0f", "f32:80000000")
    add("f32", "1", "f32:" + f32_bits(1.0))               # abstract int converted to the declared type
    a = add("f32", "2.5", "f32:" + f32_bits(2.5))
    add(None, a, "f32:" + f32_bits(2.5))                    # reference to another constant
    add("f32", "-%s" % a, "f32:" + f32_bits(-2.5))
    add("f32", "1.5 + 2.0 * 4.0", "f32:" + f32_bits(9.5))
    add("f32", "1.0 / 3.0", None)
    # i32 / u32
    for v in [0, 1, -1, 2147483647, -2147483647, 42]:
        add("i32", str(v), "i32:%d" % v)
        add(None, "%di" % v if v >= 0 else "-%di" % -v, "i32:%d" % v)
    add("i32", "-2147483647 - 1", "i32:-2147483648")
    for v in [100000, 1000000, 1048576, 1000001, 100100, 10000000, 20000003, 1000000000]:
        add("i32", str(v), "i32:%d" % v)
        add(None, "%du" % v, "u32:%d" % v)
        add("i32", "-%d" % v, "i32:-%d" % v)
    add(None, "1000000000000li", "i64:1000000000000")
    add(None, "9223372036854775808lu", "u64:9223372036854775808")
    add(None, "10000000000000000000lu", "u64:10000000000000000000")
    add("f32", "1000000.0", "f32:" + f32_bits(1000000.0))
    add("f32", "100100.5", "f32:" + f32_bits(100100.5))
    add("i32", "1 << 4", "i32:16")
    add("i32", "7 / 2", "i32:3")
    add("i32", "-7 % 3", None)
    for v in [0, 1, 4294967295, 2147483648, 7]:
        add("u32", str(v), "u32:%d" % v)
        add(None, "%du" % v, "u32:%d" % v)
    add("u32", "1u << 31u", "u32:2147483648")
    add(None, "0xffu", "u32:255")
    add(None, "0x7fffffff", None)
    b = add("u32", "12u", "u32:12")
    add("u32", "%s * 2u + 1u" % b, "u32:25")
    # bool
    add("bool", "true", "bool:true")
    add(None, "false", "bool:false")
    add("bool", "true && false", "bool:false")
    add("bool", "1 < 2", "bool:true")
    # 64-bit
    add("f64", "1.5lf", "f64:" + f64_bits(1.5))
    add(None, "2.25lf", "f64:" + f64_bits(2.25))
    add("f64", "1.7976931348623157e308lf", "f64:" + f64_bits(1.7976931348623157e308))
    add("i64", "-9li", "i64:-9")
    add(None, "9223372036854775807li", "i64:9223372036854775807")
    add("u64", "18446744073709551615lu", "u64:18446744073709551615")
    add(None, "5lu", "u64:5")
    # abstract (no suffix, no declared type)
    add(None, "4", None)
    add(None, "2.5", None)
    add(None, "1 + 2", None)
    # non-scalar constants must not be exported
    add(None, "vec3<f32>(1.0, 2.0, 3.0)", None)
    add("vec2<u32>", "vec2<u32>(1u, 2u)", None)
    add(None, "array<f32, 2>(1.0, 2.0)", None)
    add(None, "mat2x2<f32>(1.0, 0.0, 0.0, 1.0)", None)
    # zero-value constructors of scalar types: the constant-evaluated value is the zero of the type
    add(None, "f32()", "f32:00000000")
    add("u32", "u32()", "u32:0")
    add(None, "i32()", "i32:0")
    add(None, "bool()", "bool:false")
    add("f32", "f32(2)", "f32:" + f32_bits(2.0))
    add(None, "i32(7)", "i32:7")
    add(None, "u32(1.0f)", "u32:1")
    # zero-value constructors of non-scalar types
    add(None, "vec3<f32>()", None)
    add(None, "vec2<u32>()", None)
    add("vec4<i32>", "vec4<i32>()", None)
    add(None, "mat3x3<f32>()", None)
    add(None, "array<u32, 2>()", None)
    add(None, "vec3<f32>(1.0)", None)
    add(None, "vec4<f32>(vec2<f32>(1.0, 2.0), 3.0, 4.0)", None)
    add(None, "vec3<f32>(vec2<f32>(1.0, 2.0), 3.0)", None)
    add(None, "array<vec2<f32>, 2>(vec2<f32>(1.0, 2.0), vec2<f32>(3.0, 4.0))", None)
    add(None, "vec2<bool>(true, false)", None)
    return t


def const_shaders(rng, n_shaders, per=24):
    table = const_table(rng)
    # constants that reference others must keep their dependencies: keep table order and take contiguous windows plus the full table
    out = []
    full = {"structs": [], "globals": [], "consts": table, "overrides": [], "functions": [], "entries": [frag_entry()]}
    out.append(full)
    for i in range(n_shaders - 1):
        # random literal-only selection (no cross references) with shuffled order and non-ASCII names
        lits = [dict(c) for c in table if not any(ch.isalpha() and ch == "K" for ch in c["expr"])]
        rng.shuffle(lits)
        sel = lits[:per]
        for j, c in enumerate(sel):
            c["name"] = rng.choice(["C", "k_", "\u03ba", "MAX_", "v\u00e9", "camelCase", "entry_", "source_"]) + str(j)
        # names that resemble items the generator emits itself (but are different identifiers: Rust is case sensitive)
        special = (["source", "device", "targets"] if i % 3 == 2 else []) + ["_PI", "_lanes", "_DEBUG", "raw", "safe", "gen", "entry_fs_main", "push_constant_stages", "Source", "entry_FS_MAIN", "bind_groups_", "fs_main_entry_", "Entry_Fs_Main"]
        rng.shuffle(special)
        for j, nm_ in enumerate(special[:rng.randint(1, 4)]):
            if j < len(sel):
                sel[j]["name"] = nm_
        out.append({"structs": [], "globals": [], "consts": sel, "overrides": [], "functions": [], "entries": [frag_entry()]})
    return out


# ------------------------------------------------------------------ C12 overrides
def override_shaders(rng, n):
    out = []
    tys = ["bool", "i32", "u32", "f32", "f64"]
    defaults = {"bool": ["true", "false"], "i32": ["-3", "7i"], "u32": ["5u", "0u"], "f32": ["1.5", "0.25f"], "f64": ["1.5lf", "0.1lf"]}
    # every single-override shape: 4 types x default? x id in {none, 0, 35}
    for ty in tys:
        for has_def in (False, True):
            for oid in (None, 0, 35):
                o = {"name": "ov", "ty": ty}
                if has_def:
                    o["default"] = defaults[ty][0]
                if oid is not None:
                    o["id"] = oid
                out.append([o])
    # very many overrides: 32, 33, 40 and 70 required ones (map built in chunks), mixed with optional ones, some with ids
    for n_req in (32, 33, 40, 70):
        ovs = []
        for j in range(n_req):
            ty = tys[j % len(tys)]
            o = {"name": "req%d" % j, "ty": ty}
            if j % 7 == 3:
                o["id"] = 100 + j
            ovs.append(o)
            if j % 11 == 5:
                ovs.append({"name": "opt%d" % j, "ty": ty, "default": defaults[ty][0]})
        out.append(ovs)
    while len(out) < n:
        k = rng.randint(2, 5)
        ovs = []
        ids = rng.sample([0, 1, 7, 35, 1200, 65535], k)
        for j in range(k):
            ty = rng.choice(tys)
            o = {"name": rng.choice(["scale", "count", "flag", "gamma", "\u03b1", "mode", "MAX_LIGHTS", "useShadows", "Gamma", "tone_MAP", "N"]) + str(j), "ty": ty}
            if rng.random() < 0.5:
                o["default"] = rng.choice(defaults[ty])
            elif rng.random() < 0.25 and ovs and any(p["ty"] == ty and ty != "bool" for p in ovs):
                dep = [p for p in ovs if p["ty"] == ty][0]
                o["default"] = dep["name"]     # default depending on another override (no arithmetic: extreme assignments must not overflow)
            if rng.random() < 0.5:
                o["id"] = ids[j]
            ovs.append(o)
        out.append(ovs)
    shaders = []
    for ovs in out:
        S = {"structs": [{"name": "VIn", "members": [{"name": "p", "ty": VEC4, "io": {"k": "loc", "n": 0}}]}], "globals": [], "consts": [], "overrides": ovs, "functions": [],
             "entries": [{"name": "vs_main", "stage": "vertex", "params": [{"k": "struct", "name": "v", "ty": "VIn"}], "result": {"k": "builtin", "b": "position"}, "body": [], "wg": []},
                         {"name": "vs_fullscreen", "stage": "vertex", "params": [{"k": "builtin", "name": "vi", "b": "vertex_index"}], "result": {"k": "builtin", "b": "position"}, "body": [], "wg": []},
                         {"name": "fs_main", "stage": "fragment", "params": [], "result": {"k": "loc", "n": 0, "ty": VEC4}, "body": [], "wg": []},
                         {"name": "cs_main", "stage": "compute", "params": [], "body": [], "wg": ["1"]}]}
        if len(shaders) % 5 == 4:
            # an override with a default that gives the length of a workgroup array
            ovs.append({"name": "tile_len", "ty": "u32", "default": "16u"})
            S["structs"].append({"name": "TileCell", "members": [{"name": "c", "ty": VEC4}]})
            S["globals"].append({"name": "tile", "space": "workgroup", "ty": {"k": "array", "n": 4, "len": "tile_len", "e": {"k": "struct", "name": "TileCell"}}})
        u32s = [o["name"] for o in ovs if o["ty"] == "u32"]
        if u32s and len(shaders) % 3 == 2:
            for e in S["entries"]:
                if e["stage"] == "compute":
                    e["wg"] = [u32s[0], "2"]
        # other entry sets: compute only, fragment only, no entry point at all, vertex only
        r = len(shaders) % 6
        if r == 1:
            S["entries"] = [e for e in S["entries"] if e["stage"] == "compute"]
        elif r == 2:
            S["entries"] = [e for e in S["entries"] if e["stage"] == "fragment"]
        elif r == 3:
            S["entries"] = []
        elif r == 4:
            S["entries"] = [e for e in S["entries"] if e["stage"] == "vertex"]
        if not any(p_.get("ty") == "VIn" for e in S["entries"] for p_ in e["params"]):
            S["structs"] = []
        shaders.append(S)
    # declared types spelled through aliases; entry points that read some of the overrides (only some stages, or none)
    for k, S in enumerate(shaders):
        if k % 4 == 1:
            tys_used = sorted({o["ty"] for o in S["overrides"]})
            S["aliases"] = [{"name": {"bool": "Flag", "i32": "Int", "u32": "Count", "f32": "Real", "f64": "Double"}[t], "ty": {"k": "scalar", "s": t}} for t in tys_used[:2]]
        if k % 3 == 0 and S["entries"]:
            stages = sorted({e["stage"] for e in S["entries"]})
            reader = stages[k % len(stages)]
            for e in S["entries"]:
                if e["stage"] == reader:
                    e["body"] = [{"k": "ovr", "o": o["name"]} for o in S["overrides"]]
    # module constants next to the overrides, one of them named like a local of constants()
    for nm in ("value", "scale_k"):
        shaders.append({"structs": [], "globals": [], "consts": [{"name": nm, "decl": "u32", "expr": "3u", "expect": "u32:3"}],
                        "overrides": [{"name": "x", "ty": "u32", "default": "5u"}, {"name": "y", "ty": "u32"}], "functions": [],
                        "entries": [{"name": "fs_main", "stage": "fragment", "params": [], "result": {"k": "loc", "n": 0, "ty": VEC4}, "body": [], "wg": []}]})
    return shaders
