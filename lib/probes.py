"""Probe generators: Rust source executed inside the batch crate next to a generated module `m`.
Probes are generated from the static projection of the module (what exists) and, where inputs are needed,
from the abstract shader record. Each probe is `pub fn run() -> Vec<serde_json::Value>`."""
import json, re

HEAD = "use serde_json::json;\npub fn run() -> Vec<serde_json::Value> {\n    let mut v: Vec<serde_json::Value> = vec![];\n"
TAIL = "    v\n}\n"

SUPPORT = r'''
pub trait Canon { fn canon(&self) -> String; }
impl Canon for f32 { fn canon(&self) -> String { format!("f32:{:08x}", self.to_bits()) } }
impl Canon for f64 { fn canon(&self) -> String { format!("f64:{:016x}", self.to_bits()) } }
impl Canon for i32 { fn canon(&self) -> String { format!("i32:{}", self) } }
impl Canon for u32 { fn canon(&self) -> String { format!("u32:{}", self) } }
impl Canon for i64 { fn canon(&self) -> String { format!("i64:{}", self) } }
impl Canon for u64 { fn canon(&self) -> String { format!("u64:{}", self) } }
impl Canon for bool { fn canon(&self) -> String { format!("bool:{}", self) } }
impl<T> Canon for &T where T: ?Sized { fn canon(&self) -> String { "other".to_string() } }
'''


def ident_ok(s):
    return re.match(r"^[^\W\d]\w*$", s, re.UNICODE) is not None and s not in ("_",)


def js(s):
    """Rust string literal for s"""
    return json.dumps(s, ensure_ascii=False).replace("\\u", "\\u").replace("$", "$")


def rust_str(s):
    out = '"'
    for ch in s:
        o = ord(ch)
        if ch == '"':
            out += '\\"'
        elif ch == "\\":
            out += "\\\\"
        elif o < 0x20 or o == 0x7f:
            out += "\\u{%x}" % o
        else:
            out += ch
    return out + '"'


def probe_layout(out):
    body = ""
    for st in out.get("structs", []):
        if any(f.get("flat", {}).get("leaf", {}).get("fam") == "vec_of" for f in st["fields"]):
            continue
        n = st["name"]
        offs = ", ".join('json!({"name": %s, "off": std::mem::offset_of!(m::%s, %s)})' % (rust_str(f["name"]), n, f["name"]) for f in st["fields"])
        body += '    v.push(json!({"ev": "rt.layout", "struct": %s, "size": std::mem::size_of::<m::%s>(), "align": std::mem::align_of::<m::%s>(), "offsets": [%s]}));\n' % (rust_str(n), n, n, offs)
    return HEAD + body + TAIL


def probe_consts(out):
    body = "    use crate::support::Canon;\n"
    for c in out.get("consts", []):
        n = c.get("name")
        if not n or n == "_":
            continue
        body += '    v.push(json!({"ev": "rt.const", "name": %s, "type_name": std::any::type_name_of_val(&m::%s), "canon": m::%s.canon()}));\n' % (rust_str(n), n, n)
    return HEAD + body + TAIL


def probe_source(shim):
    body = '    v.push(json!({"ev": "rt.source", "eq": m::SOURCE.as_bytes() == &include_bytes!("../m/__WGSL__")[..], "len": m::SOURCE.len()}));\n'
    if shim:
        body += ('    let device = wgpu::Device::new_for_test();\n    let _ = wgpu::take_log();\n    let module = m::create_shader_module(&device);\n'
                 '    for e in wgpu::take_log() {\n        if e["ev"] == "rt.create_shader_module" {\n'
                 '            v.push(json!({"ev": "rt.shader_module", "source_eq": e["source"].as_str() == Some(m::SOURCE), "label_none": e["label"].is_null(), "returned": e["id"] == json!(module.id)}));\n'
                 '        } else {\n            v.push(json!({"ev": "rt.unexpected", "call": e["ev"]}));\n        }\n    }\n')
    return HEAD + body + TAIL


def token_decl(i, kind):
    if kind == "buffer":
        return "    let tok%d = wgpu::Buffer::new_for_test();\n" % i, "wgpu::BufferBinding { buffer: &tok%d, offset: %d, size: None }" % (i, 256 * (i + 1))
    if kind == "texture":
        return "    let tok%d = wgpu::TextureView::new_for_test();\n" % i, "&tok%d" % i
    return "    let tok%d = wgpu::Sampler::new_for_test();\n" % i, "&tok%d" % i


def probe_bindgroups(out):
    """canonical operation sequence over the generated bind group API, recorded by the shim"""
    groups = out.get("groups", [])
    if not groups:
        return None
    body = "    let device = wgpu::Device::new_for_test();\n    let _ = wgpu::take_log();\n"
    body += '    let mark = |v: &mut Vec<serde_json::Value>, op: &str, arg: &str| { for e in wgpu::take_log() { v.push(e); } v.push(json!({"ev": "rt.op", "op": op, "arg": arg})); };\n'
    tok = 0
    gvars = []
    for g in groups:
        no = g["no"]
        fields = g.get("fields", [])
        inits = []
        toks = []
        for f in fields:
            d, e = token_decl(tok, f["kind"])
            body += d
            inits.append("%s: %s" % (f["name"], e))
            toks.append('json!({"name": %s, "kind": "%s", "id": tok%d.id, "offset": "%d"})' % (rust_str(f["name"]), f["kind"], tok, 256 * (tok + 1)))
            tok += 1
        body += '    mark(&mut v, "get_layout", "%s");\n' % no
        body += "    let layout%s = m::bind_groups::BindGroup%s::get_bind_group_layout(&device);\n" % (no, no)
        body += '    v.push(json!({"ev": "rt.tokens", "group": "%s", "fields": [%s], "layout_id": layout%s.id}));\n' % (no, ", ".join(toks), no)
        body += '    mark(&mut v, "from_bindings", "%s");\n' % no
        body += "    let g%s = m::bind_groups::BindGroup%s::from_bindings(&device, m::bind_groups::BindGroupLayout%s { %s });\n" % (no, no, no, ", ".join(inits))
        gvars.append(no)
    for pk, ctor in (("compute", "ComputePass"), ("render", "RenderPass"), ("bundle", "RenderBundleEncoder")):
        body += "    let mut pass_%s = wgpu::%s::new_for_test();\n" % (pk, ctor)
        for no in gvars:
            body += '    mark(&mut v, "set", "%s");\n    g%s.set(&mut pass_%s);\n' % (no, no, pk)
        body += '    mark(&mut v, "set_bind_groups", "%s");\n    m::set_bind_groups(&mut pass_%s, %s);\n' % (pk, pk, ", ".join("&g%s" % no for no in gvars))
        body += '    mark(&mut v, "bind_groups_set", "%s");\n    m::bind_groups::BindGroups { %s }.set(&mut pass_%s);\n' % (pk, ", ".join("bind_group%s: &g%s" % (no, no) for no in gvars), pk)
    body += '    mark(&mut v, "create_pipeline_layout", "");\n    let pl = m::create_pipeline_layout(&device);\n    mark(&mut v, "end", "");\n'
    return HEAD + body + TAIL


def probe_pipeline_layout(out):
    """pipeline layout and push constants only (works without bind groups)"""
    body = ("    let device = wgpu::Device::new_for_test();\n    let _ = wgpu::take_log();\n    let pl = m::create_pipeline_layout(&device);\n"
            "    for e in wgpu::take_log() { v.push(e); }\n")
    if out.get("push_stages"):
        body += '    v.push(json!({"ev": "rt.push_stages", "stages": wgpu::stages_json(m::PUSH_CONSTANT_STAGES)}));\n'
    return HEAD + body + TAIL


def override_value(ty_s, optional, pick):
    """Rust expression for a field value; pick selects among a few values incl. extremes"""
    base = ty_s
    vals = {"f32": ["1.5f32", "-0.0f32", "f32::MAX", "f32::MIN_POSITIVE", "16777217.0f32"],
            "i32": ["-7i32", "i32::MIN", "i32::MAX", "0i32"],
            "u32": ["7u32", "u32::MAX", "0u32", "2147483648u32"],
            "bool": ["true", "false"],
            "f64": ["2.5f64", "f64::MAX", "0.1f64", "1e300f64", "-0.0f64"], "i64": ["-9i64"], "u64": ["9u64"]}.get(base, ["Default::default()"])
    e = vals[pick % len(vals)]
    if optional:
        return "None" if pick % 3 == 0 else "Some(%s)" % e
    return e


def probe_overrides(out, n_assign=6):
    ov = out.get("overrides")
    if not ov or not ov.get("fields"):
        return None
    body = "    use crate::support::Canon;\n"
    for a in range(n_assign):
        inits = []
        desc = []
        for i, f in enumerate(ov["fields"]):
            ty = f["ty"]
            optional = ty.startswith("Option<")
            inner = ty[7:-1] if optional else ty
            e = override_value(inner, optional, a + i)
            inits.append("%s: %s" % (f["name"], e))
            if e == "None":
                desc.append('json!({"field": %s, "set": false})' % rust_str(f["name"]))
            else:
                ve = e[5:-1] if optional else e
                if inner == "bool":
                    f64e = "(if %s { 1.0f64 } else { 0.0f64 })" % ve
                else:
                    f64e = "((%s) as f64)" % ve
                desc.append('json!({"field": %s, "set": true, "canon": (%s).canon(), "f64bits": format!("{:016x}", %s.to_bits())})' % (rust_str(f["name"]), ve, f64e))
        body += "    {\n        let o = m::OverrideConstants { %s };\n        let map = o.constants();\n" % ", ".join(inits)
        body += "        let mut es: Vec<(String, f64)> = map.iter().map(|(k, x)| (k.clone(), *x)).collect();\n        es.sort_by(|a, b| a.0.cmp(&b.0));\n"
        body += '        v.push(json!({"ev": "rt.constants", "assign": [%s], "map": es.iter().map(|(k, x)| json!({"key": k, "bits": format!("{:016x}", x.to_bits())})).collect::<Vec<_>>()}));\n' % ", ".join(desc)
        # the shader compiler's own override resolution on that map
        body += ('        let module = naga::front::wgsl::parse_str(m::SOURCE).unwrap();\n'
                 '        let info = naga::valid::Validator::new(naga::valid::ValidationFlags::all(), naga::valid::Capabilities::all()).validate(&module).unwrap();\n'
                 '        match naga::back::pipeline_constants::process_overrides(&module, &info, &map) {\n'
                 '            Ok((pm, _)) => {\n'
                 '                let mut res = vec![];\n'
                 '                for (_, c) in pm.constants.iter() { if let Some(n) = &c.name { if let naga::Expression::Literal(l) = &pm.global_expressions[c.init] { let canon = match l { naga::Literal::F32(x) => x.canon(), naga::Literal::F64(x) => x.canon(), naga::Literal::I32(x) => x.canon(), naga::Literal::U32(x) => x.canon(), naga::Literal::Bool(x) => x.canon(), naga::Literal::I64(x) => x.canon(), naga::Literal::U64(x) => x.canon(), other => format!("{:?}", other) }; res.push(json!({"name": n, "canon": canon})); } } }\n'
                 '                v.push(json!({"ev": "rt.resolve", "ok": true, "resolved": res}));\n'
                 '            }\n'
                 '            Err(e) => v.push(json!({"ev": "rt.resolve", "ok": false, "err": format!("{e}")})),\n'
                 '        }\n    }\n')
    return HEAD + body + TAIL


def default_override_expr(out, shift=1):
    ov = out.get("overrides")
    if not ov or not ov.get("fields"):
        return None
    inits = []
    for i, f in enumerate(ov["fields"]):
        ty = f["ty"]
        optional = ty.startswith("Option<")
        inner = ty[7:-1] if optional else ty
        e_ = override_value(inner, optional, i + shift)
        if shift == 2 and inner in ("f32", "f64"):
            # the second call hands over non-finite values as well: a helper passes on what it is given
            e_ = ("Some(%s::INFINITY)" if optional else "%s::NEG_INFINITY") % inner
        inits.append("%s: %s" % (f["name"], e_))
    return "m::OverrideConstants { %s }" % ", ".join(inits)


def probe_entries(out, shim):
    fns = out.get("fns", {})
    body = "    use crate::support::Canon;\n"
    body += '    let cmap = |c: &std::collections::HashMap<String, f64>| { let mut es: Vec<(String, f64)> = c.iter().map(|(k, x)| (k.clone(), *x)).collect(); es.sort_by(|a, b| a.0.cmp(&b.0)); es.iter().map(|(k, x)| json!({"key": k, "bits": format!("{:016x}", x.to_bits())})).collect::<Vec<_>>() };\n'
    body += '    let bufs = |b: &[wgpu::VertexBufferLayout]| b.iter().map(|l| json!({"stride": l.array_stride as i64, "step": format!("{:?}", l.step_mode), "attrs": l.attributes.iter().map(|a| json!({"format": format!("{:?}", a.format), "offset": a.offset as i64, "location": a.shader_location as i64, "size": a.format.size() as i64})).collect::<Vec<_>>()})).collect::<Vec<_>>();\n'
    ovx = default_override_expr(out)
    if ovx:
        body += "    let overrides = %s;\n        let omap = overrides.constants();\n" % ovx
        # other values for a second call of every helper (a helper must pass on what THIS call is given)
        body += "    let overrides2 = %s;\n        let omap2 = overrides2.constants();\n" % default_override_expr(out, shift=2)
    if shim:
        body += "    let device = wgpu::Device::new_for_test();\n    let module = m::create_shader_module(&device);\n    let _ = wgpu::take_log();\n"
    for c in out.get("entry_consts", []):
        body += '    v.push(json!({"ev": "rt.entry_const", "const": "%s", "value": m::%s}));\n' % (c["const"], c["const"])
    for w in out.get("wg_sizes", []):
        body += '    v.push(json!({"ev": "rt.wg_size", "const": "%s", "value": m::compute::%s.iter().map(|x| x.to_string()).collect::<Vec<_>>()}));\n' % (w["const"], w["const"])
    any_entry = False
    for key, f in fns.items():
        if not key.startswith("fn ") or not key.endswith("_entry"):
            continue
        name = key[3:]
        ret = f.get("ret", "")
        args = []
        steps = []
        k = 0
        for p in f.get("params", []):
            ty = p["ty"].replace(" ", "")
            if "VertexStepMode" in ty:
                sm = "Vertex" if k % 2 == 0 else "Instance"
                args.append("wgpu::VertexStepMode::%s" % sm)
                steps.append(sm)
                k += 1
            elif "OverrideConstants" in ty:
                args.append("&overrides")
            elif "ColorTargetState" in ty:
                args.append("std::array::from_fn(|_| None)")
            else:
                args.append("Default::default()")
        any_entry = True
        if ret.startswith("VertexEntry"):
            body += "    {\n        let e = m::%s(%s);\n" % (name, ", ".join(args))
            body += '        v.push(json!({"ev": "rt.vertex_entry", "fn": %s, "entry_point": e.entry_point, "buffers": bufs(&e.buffers), "steps_given": %s, "constants": cmap(&e.constants), "constants_eq_overrides": %s}));\n' % (
                rust_str(name), json.dumps(steps), ("e.constants == omap" if ovx else "e.constants.is_empty()"))
            if ovx and "&overrides" in args:
                body += '        let e2 = m::%s(%s);\n        v.push(json!({"ev": "rt.entry_again", "fn": %s, "constants": cmap(&e2.constants), "constants_eq_overrides": e2.constants == omap2}));\n' % (
                    name, ", ".join("&overrides2" if a == "&overrides" else a for a in args), rust_str(name))
            if shim:
                body += ('        let s = m::vertex_state(&module, &e);\n'
                         '        v.push(json!({"ev": "rt.vertex_state", "fn": %s, "module_same": s.module.id == module.id, "entry_point": s.entry_point, "buffers_same": std::ptr::eq(s.buffers.as_ptr(), e.buffers.as_ptr()) && s.buffers.len() == e.buffers.len(), "constants_same": std::ptr::eq(s.compilation_options.constants, &e.constants), "zero_init": s.compilation_options.zero_initialize_workgroup_memory}));\n' % rust_str(name))
            body += "    }\n"
        elif ret.startswith("FragmentEntry"):
            body += "    {\n        let e = m::%s(%s);\n" % (name, ", ".join(args))
            body += '        v.push(json!({"ev": "rt.fragment_entry", "fn": %s, "entry_point": e.entry_point, "targets": e.targets.len(), "constants": cmap(&e.constants), "constants_eq_overrides": %s}));\n' % (
                rust_str(name), ("e.constants == omap" if ovx else "e.constants.is_empty()"))
            if ovx and "&overrides" in args:
                body += '        let e2 = m::%s(%s);\n        v.push(json!({"ev": "rt.entry_again", "fn": %s, "constants": cmap(&e2.constants), "constants_eq_overrides": e2.constants == omap2}));\n' % (
                    name, ", ".join("&overrides2" if a == "&overrides" else a for a in args), rust_str(name))
            if shim:
                body += ('        let s = m::fragment_state(&module, &e);\n'
                         '        v.push(json!({"ev": "rt.fragment_state", "fn": %s, "module_same": s.module.id == module.id, "entry_point": s.entry_point, "targets_same": std::ptr::eq(s.targets.as_ptr(), e.targets.as_ptr()) && s.targets.len() == e.targets.len(), "constants_same": std::ptr::eq(s.compilation_options.constants, &e.constants), "zero_init": s.compilation_options.zero_initialize_workgroup_memory}));\n' % rust_str(name))
            body += "    }\n"
    if shim and "fn vertex_state" in fns:
        # vertex_state with an entry description the caller builds itself: whatever it carries must come through
        body += ('    {\n        let lay = wgpu::VertexBufferLayout { array_stride: 16, step_mode: wgpu::VertexStepMode::Instance, attributes: &[] };\n'
                 '        let e = m::VertexEntry::<1> { entry_point: "custom_entry", buffers: [lay], constants: [("k".to_string(), 2.5f64)].into_iter().collect() };\n'
                 '        let s = m::vertex_state(&module, &e);\n'
                 '        v.push(json!({"ev": "rt.vertex_state_custom", "buffers_len": s.buffers.len(), "buffers_same": std::ptr::eq(s.buffers.as_ptr(), e.buffers.as_ptr()), "entry_point": s.entry_point, "constants_same": std::ptr::eq(s.compilation_options.constants, &e.constants), "module_same": s.module.id == module.id}));\n    }\n')
    if shim and "fn fragment_state" in fns:
        body += ('    {\n        let e = m::FragmentEntry::<2> { entry_point: "custom_entry", targets: [None, None], constants: [("k".to_string(), 2.5f64)].into_iter().collect() };\n'
                 '        let s = m::fragment_state(&module, &e);\n'
                 '        v.push(json!({"ev": "rt.fragment_state_custom", "targets_len": s.targets.len(), "targets_same": std::ptr::eq(s.targets.as_ptr(), e.targets.as_ptr()), "entry_point": s.entry_point, "constants_same": std::ptr::eq(s.compilation_options.constants, &e.constants), "module_same": s.module.id == module.id}));\n    }\n')
    if shim:
        for c in out.get("compute", []):
            fn = c["fn"]
            body += "    {\n        let _ = wgpu::take_log();\n        let p = m::compute::%s(&device);\n        let log = wgpu::take_log();\n" % fn
            body += '        let log: Vec<serde_json::Value> = log.into_iter().map(|mut e| { if e["ev"] == "rt.create_shader_module" { let eq = e["source"].as_str() == Some(m::SOURCE); e["source"] = json!(eq); } e }).collect();\n'
            body += '        v.push(json!({"ev": "rt.compute_ctor", "fn": %s, "log": log, "returned": p.id}));\n    }\n' % rust_str(fn)
            any_entry = True
    for vs in out.get("vertex_structs", []):
        n = vs["name"]
        body += '    v.push(json!({"ev": "rt.vertex_struct", "struct": %s, "attrs": m::%s::VERTEX_ATTRIBUTES.iter().map(|a| json!({"format": format!("{:?}", a.format), "offset": a.offset as i64, "location": a.shader_location as i64, "size": a.format.size() as i64})).collect::<Vec<_>>(), "layout": bufs(&[m::%s::vertex_buffer_layout(wgpu::VertexStepMode::Instance)]), "size_of": std::mem::size_of::<m::%s>() as i64}));\n' % (rust_str(n), n, n, n)
    return HEAD + body + TAIL


# ------------------------------------------------------------------ C10: encase byte images
SENT = {"f32": lambda k: ("f32", "(%d.0f32 + 1000.0f32)" % k), "u32": lambda k: ("u32", "(0xA5000000u32 + %du32)" % k),
        "i32": lambda k: ("i32", "(0x5A000000i32 + %di32)" % k), "f64": lambda k: ("f64", "(%d.0f64 + 1.0e9f64)" % k)}


def _struct(S, name):
    return [d for d in S["structs"] if d["name"] == name][0]


def _components(S, t, off_expr, val_expr, out):
    """append (rust byte offset expression, scalar) for every scalar component of t in WGSL order.
    off_expr: Rust expression of the byte offset of the value inside the zeroed root; val_expr: place expression of the value"""
    k = t["k"]
    if k in ("scalar", "atomic"):
        out.append((off_expr, t["s"]))
    elif k == "vec":
        sz = 8 if t["s"] == "f64" else 4
        for i in range(t["n"]):
            out.append(("%s + %d" % (off_expr, i * sz), t["s"]))
    elif k == "mat":
        sz = 8 if t["s"] == "f64" else 4
        for f in range(t["c"] * t["r"]):
            out.append(("%s + %d" % (off_expr, f * sz), t["s"]))
    elif k == "array":
        for i in range(t["n"]):
            _components(S, t["e"], "%s + %d * esz(&%s)" % (off_expr, i, val_expr), "%s[%d]" % (val_expr, i), out)
    elif k == "struct":
        d = _struct(S, t["name"])
        for m in d["members"]:
            if m.get("io", {}).get("k") == "builtin":
                continue
            _components(S, m["ty"], "%s + std::mem::offset_of!(m::%s, %s)" % (off_expr, d["name"], m["name"]), "%s.%s" % (val_expr, m["name"]), out)


def probe_encase(S, struct_names, uniform_structs=()):
    body = ("    fn esz<T, const N: usize>(_: &[T; N]) -> usize { std::mem::size_of::<T>() }\n"
            "    fn elem_of<T>(_: *const Vec<T>) -> std::mem::MaybeUninit<T> { std::mem::MaybeUninit::zeroed() }\n"
            "    fn find(hay: &[u8], needle: &[u8]) -> Vec<i64> { let mut r = vec![]; if needle.len() <= hay.len() { for i in 0..=(hay.len() - needle.len()) { if &hay[i..i + needle.len()] == needle { r.push(i as i64); } } } r }\n")
    for name in struct_names:
        d = _struct(S, name)
        members = [m for m in d["members"] if m.get("io", {}).get("k") != "builtin"]
        tail_rt = bool(members) and members[-1]["ty"]["k"] == "rtarray"
        for kk in ([0, 1, 3] if tail_rt else [None]):
            body += "    {\n        let mut mu = std::mem::MaybeUninit::<m::%s>::zeroed();\n        let root = mu.as_mut_ptr() as *mut u8;\n" % name
            # v0 is only used to name array element types (esz); the zeroed Vec field is never read
            body += "        let v0: &m::%s = unsafe { &*(mu.as_ptr()) };\n" % name
            comps = []
            for m in (members[:-1] if tail_rt else members):
                _components(S, m["ty"], "std::mem::offset_of!(m::%s, %s)" % (name, m["name"]), "v0.%s" % m["name"], comps)
            pats = []
            sid = 1
            for off, sc in comps:
                ty, val = SENT[sc](sid)
                body += "        unsafe { std::ptr::write_unaligned(root.add(%s) as *mut %s, %s); }\n" % (off, ty, val)
                pats.append("(%s).to_le_bytes().to_vec()" % val)
                sid += 1
            if tail_rt:
                el = members[-1]["ty"]["e"]
                fld = members[-1]["name"]
                body += "        let mut items = Vec::new();\n"
                for i in range(kk):
                    ecomps = []
                    body += "        {\n            let mut eu = elem_of(unsafe { std::ptr::addr_of!((*mu.as_ptr()).%s) });\n            let eroot = eu.as_mut_ptr() as *mut u8;\n" % fld
                    body += "            let e0 = unsafe { &*eu.as_ptr() };\n"
                    _components(S, el, "0", "(*e0)", ecomps)
                    for off, sc in ecomps:
                        ty, val = SENT[sc](sid)
                        body += "            unsafe { std::ptr::write_unaligned(eroot.add(%s) as *mut %s, %s); }\n" % (off, ty, val)
                        pats.append("(%s).to_le_bytes().to_vec()" % val)
                        sid += 1
                    body += "            items.push(unsafe { eu.assume_init() });\n        }\n"
                body += "        unsafe { std::ptr::write(std::ptr::addr_of_mut!((*mu.as_mut_ptr()).%s), items); }\n" % fld
            body += "        let value = unsafe { mu.assume_init() };\n"
            body += "        let pats: Vec<Vec<u8>> = vec![%s];\n" % ", ".join(pats)
            writers = [("storage", "StorageBuffer")] + ([("uniform", "UniformBuffer")] if name in uniform_structs and not tail_rt else [])
            for wk, ctor in writers:
                body += "        {\n            let mut buf = encase::%s::new(Vec::<u8>::new());\n            buf.write(&value).unwrap();\n            let bytes = buf.into_inner();\n" % ctor
                body += '            v.push(json!({"ev": "rt.encase", "struct": %s, "writer": "%s", "k": %d, "len": bytes.len() as i64, "positions": pats.iter().map(|p| find(&bytes, p)).collect::<Vec<_>>()}));\n        }\n' % (rust_str(name), wk, -1 if kk is None else kk)
            body += "    }\n"
    return HEAD + body + TAIL


# ------------------------------------------------------------------ C02: wgpu's own validation on a real (no-op HAL) device
def probe_wgpu_validate(out):
    body = "    use crate::realdev::{noop_device, scoped};\n"
    body += "    let dev_all = noop_device(wgpu::Features::all());\n"
    body += "    let dev_std = noop_device(wgpu::Features::all() - wgpu::Features::TEXTURE_ADAPTER_SPECIFIC_FORMAT_FEATURES);\n"
    for g in out.get("groups", []):
        no = g["no"]
        body += '    v.push(json!({"ev": "wgpu.result", "call": "create_bind_group_layout", "group": "%s", "err": scoped(&dev_all, || m::bind_groups::BindGroup%s::get_bind_group_layout(&dev_all))}));\n' % (no, no)
    body += '    v.push(json!({"ev": "wgpu.result", "call": "create_pipeline_layout", "err": scoped(&dev_all, || m::create_pipeline_layout(&dev_all))}));\n'
    for c in out.get("compute", []):
        body += '    v.push(json!({"ev": "wgpu.result", "call": "create_compute_pipeline", "fn": %s, "err": scoped(&dev_all, || m::compute::%s(&dev_all))}));\n' % (rust_str(c["fn"]), c["fn"])
    fns = out.get("fns", {})
    ventries = [k[3:] for k, f in fns.items() if k.startswith("fn ") and k.endswith("_entry") and f.get("ret", "").startswith("VertexEntry")]
    fentries = [k[3:] for k, f in fns.items() if k.startswith("fn ") and k.endswith("_entry") and f.get("ret", "").startswith("FragmentEntry")]
    ovx = default_override_expr(out)
    if ovx:
        body += "    let overrides = %s;\n" % ovx

    def call(name):
        f = fns["fn " + name]
        args = []
        k = 0
        for p in f.get("params", []):
            ty = p["ty"].replace(" ", "")
            if "VertexStepMode" in ty:
                args.append("wgpu::VertexStepMode::%s" % ("Vertex" if k % 2 == 0 else "Instance"))
                k += 1
            elif "OverrideConstants" in ty:
                args.append("&overrides")
            elif "ColorTargetState" in ty:
                args.append("std::array::from_fn(|_| Some(wgpu::ColorTargetState { format: wgpu::TextureFormat::Rgba8Unorm, blend: None, write_mask: wgpu::ColorWrites::ALL }))")
            else:
                args.append("Default::default()")
        return "m::%s(%s)" % (name, ", ".join(args))
    if ventries:
        body += "    let mut module_o = None;\n    let mut layout_o = None;\n"
        body += "    let e0 = scoped(&dev_std, || { module_o = Some(m::create_shader_module(&dev_std)); layout_o = Some(m::create_pipeline_layout(&dev_std)); });\n"
        body += '    v.push(json!({"ev": "wgpu.result", "call": "create_pipeline_layout", "device": "std", "err": e0}));\n'
        body += "    if e0.is_some() { return v; }\n    let module = module_o.unwrap();\n    let layout = layout_o.unwrap();\n"
        body += "    let depth = wgpu::DepthStencilState { format: wgpu::TextureFormat::Depth32Float, depth_write_enabled: true, depth_compare: wgpu::CompareFunction::Less, stencil: Default::default(), bias: Default::default() };\n"
    for ve in ventries:
        body += "    {\n        let ve = %s;\n" % call(ve)
        body += ('        let err = scoped(&dev_std, || dev_std.create_render_pipeline(&wgpu::RenderPipelineDescriptor { label: None, layout: Some(&layout), vertex: m::vertex_state(&module, &ve), '
                 'fragment: None, primitive: Default::default(), depth_stencil: Some(depth.clone()), multisample: Default::default(), multiview: None, cache: None }));\n')
        body += '        v.push(json!({"ev": "wgpu.result", "call": "create_render_pipeline", "vertex": %s, "fragment": serde_json::Value::Null, "err": err}));\n' % rust_str(ve)
        for fe in fentries:
            body += "        {\n            let fe = %s;\n" % call(fe)
            body += ('            let err = scoped(&dev_std, || dev_std.create_render_pipeline(&wgpu::RenderPipelineDescriptor { label: None, layout: Some(&layout), vertex: m::vertex_state(&module, &ve), '
                     'fragment: Some(m::fragment_state(&module, &fe)), primitive: Default::default(), depth_stencil: None, multisample: Default::default(), multiview: None, cache: None }));\n')
            body += '            v.push(json!({"ev": "wgpu.result", "call": "create_render_pipeline", "vertex": %s, "fragment": %s, "err": err}));\n        }\n' % (rust_str(ve), rust_str(fe))
        body += "    }\n"
    return HEAD + body + TAIL


# ------------------------------------------------------------------ C09: trait implementations as rustc resolves them
IMPL_TRAITS = [("Debug", "std::fmt::Debug"), ("Clone", "Clone"), ("Copy", "Copy"), ("PartialEq", "PartialEq"), ("bytemuck::Pod", "bytemuck::Pod"),
               ("bytemuck::Zeroable", "bytemuck::Zeroable"), ("encase::ShaderType", "encase::ShaderType"), ("serde::Serialize", "serde::Serialize"),
               ("serde::Deserialize", "serde::de::DeserializeOwned")]


def probe_impls(out):
    """autoref-free specialisation: `<W<T>>::V` resolves to the inherent const iff T satisfies the bound"""
    body = ""
    pre = "struct W<T>(std::marker::PhantomData<T>);\n"
    for i, (label, bound) in enumerate(IMPL_TRAITS):
        pre += "trait No%d { const V%d: bool = false; }\nimpl<T> No%d for W<T> {}\nimpl<T: %s> W<T> { const V%d: bool = true; }\n" % (i, i, i, bound, i)
    for st in out.get("structs", []):
        n = st["name"]
        flags = ", ".join('("%s", <W<m::%s>>::V%d)' % (label, n, i) for i, (label, _) in enumerate(IMPL_TRAITS))
        body += "    {\n        let all: Vec<(&str, bool)> = vec![%s];\n        let impls: Vec<&str> = all.iter().filter(|x| x.1).map(|x| x.0).collect();\n" % flags
        body += '        v.push(json!({"ev": "rt.impls", "struct": %s, "impls": impls}));\n    }\n' % rust_str(n)
    return pre + HEAD + body + TAIL


def probe_bindgroup_ops(out, ops):
    """execute a TLC-exported operation sequence over the generated bind group API on the recording device"""
    groups = out.get("groups", [])
    if not groups:
        return None
    body = "    let device = wgpu::Device::new_for_test();\n    let _ = wgpu::take_log();\n"
    body += '    let mark = |v: &mut Vec<serde_json::Value>, op: &str, arg: &str| { for e in wgpu::take_log() { v.push(e); } v.push(json!({"ev": "rt.op", "op": op, "arg": arg})); };\n'
    tok = 0
    inits = {}
    body += '    mark(&mut v, "init", "");\n'
    for g in groups:
        no = g["no"]
        fl, toks = [], []
        for f in g.get("fields", []):
            d, e = token_decl(tok, f["kind"])
            body += d
            fl.append("%s: %s" % (f["name"], e))
            toks.append('json!({"name": %s, "kind": "%s", "id": tok%d.id, "offset": "%d"})' % (rust_str(f["name"]), f["kind"], tok, 256 * (tok + 1)))
            tok += 1
        inits[no] = ", ".join(fl)
        body += '    v.push(json!({"ev": "rt.tokens", "group": "%s", "fields": [%s]}));\n' % (no, ", ".join(toks))
        body += "    let mut g%s: Option<m::bind_groups::BindGroup%s> = None;\n" % (no, no)
    for pk, ctor in (("compute", "ComputePass"), ("render", "RenderPass"), ("bundle", "RenderBundleEncoder")):
        body += "    let mut pass_%s = wgpu::%s::new_for_test();\n" % (pk, ctor)
    nos = [g["no"] for g in groups]
    for o in ops:
        op, arg = o["op"], o["arg"]
        if op == "get_layout":
            body += '    mark(&mut v, "get_layout", "%s");\n    let _ = m::bind_groups::BindGroup%s::get_bind_group_layout(&device);\n' % (arg, arg)
        elif op == "from_bindings":
            body += '    mark(&mut v, "from_bindings", "%s");\n    g%s = Some(m::bind_groups::BindGroup%s::from_bindings(&device, m::bind_groups::BindGroupLayout%s { %s }));\n' % (arg, arg, arg, arg, inits[arg])
        elif op == "set":
            g, pk = arg.split("@")
            body += '    mark(&mut v, "set", "%s");\n    g%s.as_ref().unwrap().set(&mut pass_%s);\n' % (g, g, pk)
        elif op == "set_bind_groups":
            body += '    mark(&mut v, "set_bind_groups", "%s");\n    m::set_bind_groups(&mut pass_%s, %s);\n' % (arg, arg, ", ".join("g%s.as_ref().unwrap()" % n for n in nos))
        elif op == "bind_groups_set":
            body += '    mark(&mut v, "bind_groups_set", "%s");\n    m::bind_groups::BindGroups { %s }.set(&mut pass_%s);\n' % (arg, ", ".join("bind_group%s: g%s.as_ref().unwrap()" % (n, n) for n in nos), arg)
        elif op == "create_pipeline_layout":
            body += '    mark(&mut v, "create_pipeline_layout", "");\n    let _ = m::create_pipeline_layout(&device);\n'
    body += '    mark(&mut v, "end", "");\n'
    return HEAD + body + TAIL
