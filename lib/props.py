"""Per-property checks. Each function takes (tier, seed) and returns an exit code."""
import json, os, random
from engine import *
import families as F

KEEP_BG = ["groups", "push_stages", "pipeline_layout"]


def drive_and_judge(rep, prop, cases, family, keep, enforce=None, detail=0, extra_env=None, case_timeout=None):
    """real generator on every case -> trace -> TLC judges `prop` on every recorded observation"""
    if not cases:
        return
    by_id = {c["id"]: c for c in cases}
    for c in cases:
        rep.how.setdefault(c.get("family", ""), {"mode": "gen", "keep": keep, "enforce": enforce or prop, "case_timeout": case_timeout})
    trace = run_vdriver(cases, "%s_%s" % (prop, family), keep=keep, detail=detail, case_timeout=case_timeout)
    tr = validate_trace(trace, enforce or prop, env=extra_env)
    rep.evaluations += len(cases)
    for c in cases:
        rep.distinct.add(src_key(c))
    handle_verdicts(rep, tr, by_id, family)
    for c in cases[:2]:
        rep.sample({"family": family, "case": c})


def replay(prop, path):
    """re-run the recorded failing case through the same engine and judge it again"""
    r = json.load(open(path))
    case, how = r.get("case"), r.get("how")
    if not case or not how:
        log("this replay file records a history / schedule check: re-running the whole quick check of %s" % prop)
        return CHECKS[prop]("quick", int(os.environ.get("VERIF_SEED", "1")))
    rep = Report(prop, "quick", 0)
    if how["mode"] == "gen":
        drive_and_judge(rep, prop, [case], "replay", how.get("keep"), enforce=how.get("enforce"), case_timeout=how.get("case_timeout"))
    else:
        compiled_and_judge(rep, prop, [case], "replay", how["flavor"], set(how.get("want", [])), keep=how.get("keep"), enforce=how.get("enforce"))
    for v, c in rep.violations:
        print("VIOLATION property=%s replay=%s" % (prop, path))
        log("  %s" % v.get("msg", "")[:800])
    for f, v in rep.known:
        print("KNOWN-FINDING: property=%s %s [%s]" % (prop, f["text"], f["id"]))
    if rep.oracle_disagreements or rep.proj_failures:
        return 2
    return 1 if rep.violations else 0


def check_C11(tier, seed):
    rep = Report("C11", tier, seed)
    rng = random.Random(seed)
    quick = tier == "quick"
    # (A) the scan/density algorithm as specified satisfies the contract; (B) export every sequence
    consts = {"MaxLen": "4", "MaxGroup": "3", "MaxBinding": "2"} if quick else {"MaxLen": "5", "MaxGroup": "2", "MaxBinding": "2"}
    r = run_mc("MC_BindGroupData.tla", "MC_BindGroupData.cfg", workers=8, consts=consts)
    rep.add_mc("MC_BindGroupData", r, "all declaration sequences, contract + table + first-duplicate invariants")
    # (D) self-test: the mutant that only tests duplicates in the first group must be rejected
    m = run_mc("MC_BindGroupData.tla", "MC_BindGroupData_mut.cfg", workers=4, expect_violation=True)
    rep.add_selftest("MC_BindGroupData_mut(DupScope=first)", m)
    # symbolic integers (Apalache): the same algorithm and contract for sequences of up to 6 declarations over ALL integer values
    rep.mc.append(run_apalache("BGD_Symbolic.tla", "Contract", 8))
    exported = r.cases
    if not quick:
        pass
    elif len(exported) > 12000:
        exported = exported[::2]
    cases = F.bgd_cases_from_export(exported, quick)
    rep.exhaustive = True
    rep.notes.append("bounded-exhaustive: every declaration sequence of length <= %s over groups 0..%s x bindings 0..%s replayed into the real generator"
                     % (consts["MaxLen"], consts["MaxGroup"], consts["MaxBinding"]))
    drive_and_judge(rep, "C11", cases, "export", KEEP_BG)
    # (C) random sequences far beyond the TLC bounds: u32 extremes, long groups, sparse unordered indices
    drive_and_judge(rep, "C11", F.bgd_random(rng, 1500 if quick else 20000), "random", KEEP_BG)
    return finish(rep)


def cases_from_S(exported, prefix, family, vary_validate=True, o=None):
    cases = []
    for i, e in enumerate(exported):
        oo = dict(o or F.opts())
        if vary_validate and i % 3 == 1:
            oo["validate"] = "all"
        cases.append({"id": "%s-%05d" % (prefix, i), "family": family, "S": e["S"], "opts": oo})
    return cases


def random_shader_cases(rng, n, prefix, family, **kw):
    cases = []
    for i in range(n):
        S = F.rand_shader(rng, **kw)
        cases.append({"id": "%s-%05d" % (prefix, i), "family": family, "S": S,
                      "opts": F.opts(validate=rng.choice(["none", "all"]))})
    return cases


STAGE_SELFTESTS = [("MC_StagesCtx.tla", "MC_StagesCtx_mut.cfg", "Handled without LoopContinuing")]


def stages_mc(rep, quick, memo, check_work):
    shape = {"NH": "2", "NE": "1", "NG": "2"} if quick else {"NH": "3", "NE": "1", "NG": "2"}
    shape["Memo"] = "TRUE" if memo else "FALSE"
    shape["CheckWork"] = "TRUE" if check_work else "FALSE"
    r1 = run_mc("MC_Stages.tla", "MC_Stages.cfg", workers=8, consts=shape)
    rep.add_mc("MC_Stages(shape slice %s)" % shape, r1, "all call-graph DAGs; marks = Vis at Finish; marks subset of Vis always")
    ctx = {"DA": "1", "DC": "2"} if quick else {"DA": "2", "DC": "2"}
    ctx["Memo"] = shape["Memo"]
    r2 = run_mc("MC_StagesCtx.tla", "MC_StagesCtx.cfg", workers=8, consts=ctx)
    rep.add_mc("MC_StagesCtx(context slice %s)" % ctx, r2, "access and call at every context path")
    return r1, r2


def check_C03(tier, seed):
    rep = Report("C03", tier, seed)
    rng = random.Random(seed)
    quick = tier == "quick"
    r1, r2 = stages_mc(rep, quick, memo=MEMO, check_work=False)
    for mod, cfg, what in STAGE_SELFTESTS:
        rep.add_selftest("%s (%s)" % (cfg, what), run_mc(mod, cfg, workers=4, expect_violation=True))
    if not quick:
        r3 = run_mc("MC_Stages.tla", "MC_Stages.cfg", workers=12, consts={"NH": "2", "NE": "2", "NG": "2", "Export": "FALSE", "Memo": "TRUE" if MEMO else "FALSE"})
        rep.add_mc("MC_Stages(2 helpers x 2 entries, no export)", r3)
    rep.exhaustive = True
    keep = ["groups", "push_stages"]
    drive_and_judge(rep, "C03", cases_from_S(r1.cases if quick else r1.cases[::4], "shape", "stages-shape"), "shape", keep)
    drive_and_judge(rep, "C03", cases_from_S(r2.cases, "ctx", "stages-ctx"), "ctx", keep)
    rc = random_shader_cases(rng, 1200 if quick else 30000, "rnd", "stages-random", n_fn=(0, 6), n_entry=(1, 5), depth=3, push=0.5)
    drive_and_judge(rep, "C03", rc + F.deep_use_cases(push=False) + F.deep_use_cases(push=True) + F.many_function_cases() + [{"id": "twin-groups", "family": "groups-with-equal-resources", "S": F.twin_groups_shader(), "opts": F.opts()}]
                    + [{"id": "ifchain-long-%d" % i, "family": "else-if-chain", "S": F.nested("if_chain_long", 1, ret=bool(i)), "opts": F.opts()} for i in (0, 1)]
                    + [{"id": "ifsplit-%d" % i, "family": "calls-in-both-arms", "S": F.if_split_shader(ra, rb_), "opts": F.opts()} for i, (ra, rb_) in enumerate([(False, False), (True, False), (False, True), (True, True)])], "random", keep)
    # one thread that has already done 65 000 entry-point walks (16-bit stamps, generation counters)
    drive_and_judge(rep, "C03", F.wear_history(), "wear", keep)
    # a subset is compiled against the recording device: the visibility VALUES the generated code passes, not their tokens
    sub = cases_from_S(r2.cases[::(60 if quick else 6)], "ctxr", "stages-ctx-recorded", vary_validate=False) + [dict(c, id="r" + c["id"], family="stages-random-recorded") for c in rc[:(80 if quick else 1500)]]
    compiled_and_judge(rep, "C03", sub, "recorded", "shim", {"pipeline_layout"}, keep=["groups"], enforce="C03R")
    return finish(rep)


def structs_mc(rep, quick, early, check_work, export=True):
    c = {"NS": "2", "NGl": "1", "Early": "TRUE" if early else "FALSE", "CheckWork": "TRUE" if check_work else "FALSE",
         "Export": "TRUE" if export else "FALSE"}
    r = run_mc("MC_Structs.tla", "MC_Structs.cfg", workers=8, consts=c)
    rep.add_mc("MC_Structs(%s)" % c, r, "all struct role/reachability patterns; closure model = HostReach")
    return r


def check_C08(tier, seed):
    rep = Report("C08", tier, seed)
    rng = random.Random(seed)
    quick = tier == "quick"
    r = structs_mc(rep, quick, early=EARLY, check_work=False)
    if not quick:
        r3 = run_mc("MC_Structs.tla", "MC_Structs.cfg", workers=12, consts={"NS": "3", "NGl": "1", "Export": "FALSE", "Early": "TRUE" if EARLY else "FALSE"})
        rep.add_mc("MC_Structs(NS=3, no export)", r3)
    exported = r.cases
    rep.exhaustive = not quick
    keep = ["structs"]
    drive_and_judge(rep, "C08", cases_from_S(exported, "role", "struct-roles", vary_validate=False, o=F.opts(enc=True)), "roles", keep)
    drive_and_judge(rep, "C08", random_shader_cases(rng, 800 if quick else 20000, "rnd", "structs-random"), "random", keep)
    rc = []
    for i in range(400 if quick else 8000):
        S, has_rt = F.role_shader(rng)
        rc.append({"id": "rrole-%05d" % i, "family": "structs-roles-random", "S": S, "opts": F.opts(enc=True, mv=("rust", "glam")[i % 2])})
    for l in (3, 13, 14, 15):
        for via in ("member", "array"):
            T = F.struct_tower(l, fan=1, via=via)
            rc.append({"id": "tower-%d-%s" % (l, via), "family": "structs-nesting-depth", "S": T, "opts": F.opts()})
        T = F.struct_tower(l - 1, fan=1)
        T["globals"][0]["ty"] = {"k": "rtarray", "e": T["globals"][0]["ty"]}
        T["globals"][0]["space"] = "storage_r"
        rc.append({"id": "tower-%d-rt" % l, "family": "structs-nesting-depth", "S": T, "opts": F.opts(enc=True)})
    # calls that end in a documented panic (runtime-sized array without encase) between the other calls of the same thread:
    # whatever the unwinding leaves behind must not reach the next module
    F32 = {"k": "scalar", "s": "f32"}
    P = {"structs": [{"name": "PA", "members": [{"name": "x", "ty": F32}]}, {"name": "PB", "members": [{"name": "a", "ty": {"k": "struct", "name": "PA"}}, {"name": "n", "ty": {"k": "scalar", "s": "u32"}}]},
                     {"name": "PRt", "members": [{"name": "count", "ty": {"k": "scalar", "s": "u32"}}, {"name": "items", "ty": {"k": "rtarray", "e": {"k": "struct", "name": "PB"}}}]}],
         "globals": [{"name": "p_rt", "space": "storage_r", "group": "0", "binding": "0", "ty": {"k": "struct", "name": "PRt"}}, {"name": "p_u", "space": "uniform", "group": "0", "binding": "1", "ty": {"k": "struct", "name": "PB"}},
                     {"name": "p_v", "space": "uniform", "group": "0", "binding": "2", "ty": F.VEC4}],
         "consts": [], "overrides": [], "functions": [], "entries": [{"name": "main", "stage": "compute", "params": [], "wg": ["1"], "body": [{"k": "access", "g": "p_u", "how": "load"}]}]}
    rc2 = []
    for i, c in enumerate(rc):
        if i % 6 == 0:
            rc2.append({"id": "panic-before-%05d" % i, "family": "structs-after-a-panic", "S": P, "opts": (F.opts(), F.opts(bmh=True), F.opts(bmv=True, mv="glam"))[(i // 6) % 3]})
        rc2.append(c)
    drive_and_judge(rep, "C08", rc2, "roles-random", keep)
    return finish(rep)


def check_C20(tier, seed):
    rep = Report("C20", tier, seed)
    quick = tier == "quick"
    # model level: the tight bounds (each function once per entry point, each type expanded once)
    stages_mc(rep, quick, memo=MEMO, check_work=True)
    structs_mc(rep, quick, early=EARLY, check_work=True, export=False)
    # self-tests: without the memo / early return the tight bounds are violated
    rep.add_selftest("MC_Stages(Memo=FALSE, CheckWork)", run_mc("MC_Stages.tla", "MC_Stages.cfg", workers=4, expect_violation=True,
                     consts={"Memo": "FALSE", "CheckWork": "TRUE", "Export": "FALSE"}, tag="st_nomemo"))
    rep.add_selftest("MC_Structs(Early=FALSE, CheckWork)", run_mc("MC_Structs.tla", "MC_Structs.cfg", workers=4, expect_violation=True,
                     consts={"Early": "FALSE", "CheckWork": "TRUE", "Export": "FALSE"}, tag="ms_noearly"))
    keep = ["mods"]
    drive_and_judge(rep, "C20", F.growth_cases(quick), "growth", keep, case_timeout=20)
    rng = random.Random(seed)
    drive_and_judge(rep, "C20", random_shader_cases(rng, 400 if quick else 10000, "rnd", "c20-random", n_fn=(3, 12), n_entry=(1, 6), depth=3), "random", keep, case_timeout=20)
    return finish(rep)


def check_C13(tier, seed):
    rep = Report("C13", tier, seed)
    rng = random.Random(seed)
    quick = tier == "quick"
    stages_mc(rep, quick, memo=MEMO, check_work=False)
    keep = ["push_stages", "pipeline_layout"]
    cases = F.push_cases(rng, 600 if quick else 12000)
    drive_and_judge(rep, "C13", cases + F.deep_use_cases(push=True) + F.many_function_cases(push=True), "push", keep)
    # the descriptor the compiled module really hands to the device (recording shim) ...
    sub = [dict(c, id="r" + c["id"], family="push-recorded") for c in cases[:(120 if quick else 2000)]]
    compiled_and_judge(rep, "C13", sub, "recorded", "shim", {"pipeline_layout"}, keep=["push_stages"], enforce="C13R")
    # ... and real wgpu's create_pipeline_layout on the no-op device (PUSH_CONSTANTS enabled, max_push_constant_size 256)
    sub2 = [dict(c, id="w" + c["id"], family="push-wgpu") for c in cases[:(120 if quick else 2000)]]
    compiled_and_judge(rep, "C13", sub2, "wgpu", "realrun", {"wgpu"}, keep=["push_stages"], enforce="C13R")
    return finish(rep)


def check_C09(tier, seed):
    rep = Report("C09", tier, seed)
    rng = random.Random(seed)
    quick = tier == "quick"
    r = structs_mc(rep, quick, early=EARLY, check_work=False)
    keep = ["structs", "structs_sha", "rest_sha"]
    # role enumeration from TLC x a rotating option vector
    ov = F.all_opts()
    sub = r.cases[::(6 if quick else 1)]
    cases = []
    for i, e in enumerate(sub):
        for j in range(3):
            cases.append({"id": "role-%05d-%d" % (i, j), "family": "roles-x-options", "S": e["S"], "opts": ov[(i * 3 + j * 17) % len(ov)]})
    vdef = {"name": "Particle", "members": [{"name": "pos", "ty": F.VEC4, "io": {"k": "loc", "n": 0}}, {"name": "vel", "ty": F.VEC4, "io": {"k": "loc", "n": 1}}]}
    ventry = {"name": "vs_main", "stage": "vertex", "params": [{"k": "struct", "name": "p", "ty": "Particle"}], "result": {"k": "builtin", "b": "position"}, "body": [], "wg": []}
    for j, o_ in enumerate([F.opts(bmh=True), F.opts(enc=True, mv="glam"), F.opts(bmv=True, bmh=True, serde=True)]):
        for k_, gl in enumerate([[], [{"name": "particles", "space": "storage_r", "group": "0", "binding": "0", "ty": {"k": "array", "n": 4, "e": {"k": "struct", "name": "Particle"}}}], []]):
            cases.append({"id": "samedecl-%d-%d" % (j, k_), "family": "roles-x-options", "opts": o_,
                          "S": {"structs": [vdef], "globals": gl, "consts": [], "overrides": [], "functions": [], "entries": [ventry]}})
    huge = {"structs": [{"name": "Huge", "members": [{"name": "m", "ty": {"k": "array", "n": 16385, "e": {"k": "mat", "c": 4, "r": 4, "s": "f32"}}}]},
                        {"name": "Outer", "members": [{"name": "h", "ty": {"k": "struct", "name": "Huge"}}, {"name": "n", "ty": {"k": "scalar", "s": "u32"}}]},
                        {"name": "Mib", "members": [{"name": "m", "ty": {"k": "array", "n": 65536, "e": F.VEC4}}]}],
            "globals": [{"name": "outer", "space": "storage_r", "group": "0", "binding": "0", "ty": {"k": "struct", "name": "Outer"}},
                        {"name": "mib", "space": "storage_r", "group": "0", "binding": "1", "ty": {"k": "struct", "name": "Mib"}}], "consts": [], "overrides": [], "functions": [],
            "entries": [{"name": "main", "stage": "compute", "params": [], "body": [{"k": "access", "g": "outer", "how": "addr"}], "wg": ["1"]}]}
    for j, o_ in enumerate([F.opts(), F.opts(bmh=True), F.opts(enc=True, mv="glam"), F.opts(serde=True, bmv=True)]):
        cases.append({"id": "huge-%d" % j, "family": "roles-x-options", "S": huge, "opts": o_})
    drive_and_judge(rep, "C09", cases, "roles", keep)
    # full option matrix (16 derive vectors x 3 representations, + validation / formatter variants) on role-rich shaders
    drive_and_judge(rep, "C09", F.option_matrix_cases(rng, 40 if quick else 600, "mat", "option-matrix"), "matrix", keep)
    rep.exhaustive = True
    rep.notes.append("every shader of the matrix family is generated under all 48 derive/representation vectors plus validation and rustfmt variants")
    # trait implementations as rustc resolves them on the compiled structs (Rust / Glam representations, real bytemuck / encase / serde)
    sub = []
    for i in range(12 if quick else 150):
        S, has_rt = F.role_shader(rng, big_arrays=False)
        for j, o in enumerate(F.all_opts(mvs=("rust", "glam"))):
            if has_rt and (not o["enc"] or o["bmh"]):
                continue
            if (i + j) % (2 if quick else 1) == 0:
                sub.append({"id": "impl-%03d-%02d" % (i, j), "family": "impl-probing", "S": S, "opts": o})
    compiled_and_judge(rep, "C09", sub, "impls", "shim", {"impls"}, keep=["structs"], enforce="C09R")
    return finish(rep)


def seed_sources(rng, n_role, n_rand):
    shaders = [F.role_shader(rng)[0] for _ in range(n_role)] + [F.rand_shader(rng, names=True) for _ in range(n_rand)]
    texts = concretise(shaders)
    seeds = [("role-%d" % i if i < n_role else "rand-%d" % i, t) for i, t in enumerate(texts)]
    return seeds + repo_shaders()


def check_C17(tier, seed):
    rep = Report("C17", tier, seed)
    rng = random.Random(seed)
    quick = tier == "quick"
    r = run_mc("MC_Generator.tla", "MC_Generator.cfg", workers=4)
    rep.add_mc("MC_Generator", r, "gates: no generation step before parse and (requested) validation succeeded; error kinds; no panic on rejected input")
    rep.add_selftest("MC_Generator_mut(gate after bind group data)", run_mc("MC_Generator.tla", "MC_Generator_mut.cfg", workers=2, expect_violation=True))
    seeds = seed_sources(rng, 12 if quick else 80, 12 if quick else 80)
    cases = F.c17_cases(rng, seeds, 120 if quick else 600)
    drive_and_judge(rep, "C17", cases, "corrupt", ["mods"])
    # abstract shaders (roles, every resource kind) under capability sets: Caps.tla predicts the gate, naga is the second oracle
    rb = run_mc("MC_Bindings.tla", "MC_Bindings.cfg", workers=4, consts={"Slice": '"quick"' if quick else '"all"'})
    caps = ["PUSH_CONSTANT", "FLOAT64", "SHADER_INT64", "CUBE_ARRAY_TEXTURES", "STORAGE_TEXTURE_16BIT_NORM_FORMATS", "DUAL_SOURCE_BLENDING", "SHADER_FLOAT32_ATOMIC", "TEXTURE_ATOMIC",
            "TEXTURE_INT64_ATOMIC", "MULTISAMPLED_SHADING", "SUBGROUP"]
    shaders = [c["S"] for c in cases_from_S(rb.cases[::(2 if quick else 1)], "row", "resource-table", vary_validate=False)]
    shaders += [F.role_shader(rng)[0] for _ in range(60 if quick else 1500)]
    shaders += [c["S"] for c in F.push_cases(rng, 40 if quick else 400)]
    capcases = []
    for i, S in enumerate(shaders):
        x, y = caps[i % len(caps)], caps[(i * 7 + 3) % len(caps)]
        for j, v in enumerate(["all", "empty", "all-" + x, "only-" + x, "all-" + y, "only-" + y, "nof64"]):
            capcases.append({"id": "cap-%05d-%d" % (i, j), "family": "capability-sets", "S": S, "opts": F.opts(validate=v)})
    drive_and_judge(rep, "C17", capcases, "caps", ["mods"])
    # the same kinds of rejected sources from a process whose working directory no longer exists (errors are rendered against absolute paths too)
    import engine as _E
    _E.VDRIVER_ENV["VERIF_DELETED_CWD"] = "1"
    try:
        gone = [dict(c, id="gone-" + c["id"]) for c in cases if c["family"].startswith(("semantic-", "capability-", "valid-odd"))][:(300 if quick else 3000)]
        drive_and_judge(rep, "C17", gone, "deleted-cwd", ["mods"])
    finally:
        _E.VDRIVER_ENV.pop("VERIF_DELETED_CWD", None)
    # the same kinds of sources under the environment switches of the graphics stack (wgpu / naga read WGPU_* variables at run time; the
    # generator's validation is decided by its options alone)
    gpu_envs = [{"WGPU_VALIDATION": "0"}, {"WGPU_VALIDATION": "1", "WGPU_DEBUG": "1"}, {"WGPU_VALIDATION": "0", "WGPU_BACKEND": "gl", "WGPU_ADAPTER_NAME": "none"},
                {"WGPU_VALIDATION": "", "NAGA_VALIDATION": "0", "WGPU_GPU_BASED_VALIDATION": "0"}, {"RUST_LOG": "trace", "RUST_BACKTRACE": "full", "WGPU_TRACE": "trace_dir"}]
    sel = [c for c in cases if c["family"].startswith(("semantic-", "capability-", "valid-odd"))][:(250 if quick else 2500)]
    envd = [dict(c, id="env%d-%s" % (i % len(gpu_envs), c["id"]), env=gpu_envs[i % len(gpu_envs)]) for i, c in enumerate(sel)]
    drive_and_judge(rep, "C17", envd, "gpu-env", ["mods"])
    return finish(rep)


def pairs_of(events):
    """(case, obs) pairs of a trace, dropping hook events"""
    out, cur = [], None
    for e in events:
        if e["ev"] == "case":
            cur = e
        elif e["ev"] == "obs" and cur is not None:
            out.append((cur, e))
            cur = None
    return out


def strace_calls(cases, tag, rustfmt):
    """run the driver under strace and summarise what the process did besides computing"""
    import re as _re
    d = os.path.join(WORK, "runs", tag)
    shutil.rmtree(d, ignore_errors=True)
    os.makedirs(d)
    ip, tp, lp = os.path.join(d, "in.ndjson"), os.path.join(d, "trace.ndjson"), os.path.join(d, "strace.log")
    with open(ip, "w") as f:
        for c in cases:
            f.write(json.dumps(c) + "\n")
    build_harness()
    cmd = ["strace", "-f", "-qq", "-e", "trace=execve,openat,open,creat,unlink,unlinkat,rename,renameat,mkdir,mkdirat,connect,socket", "-o", lp, VDRIVER, "gen", ip, tp, "--no-project", "--no-s"]
    p = subprocess.run(cmd, stdout=subprocess.PIPE, stderr=subprocess.STDOUT, text=True, timeout=600)
    if p.returncode != 0 or not os.path.exists(lp):
        raise ToolError("strace run failed: " + p.stdout[-500:])
    lines = open(lp, errors="replace").read().splitlines()
    main_pid = lines[0].split()[0] if lines else ""
    execs, writes, nets, reads = [], [], [], []
    seen_pids = set()
    for ln in lines:
        m = _re.match(r"^(\d+)\s+(\w+)\((.*)", ln)
        if not m:
            continue
        pid, call, rest = m.groups()
        if call == "execve":
            pm = _re.match(r'"([^"]*)"', rest)
            path = pm.group(1) if pm else "?"
            if path != VDRIVER and "= 0" in ln and pid not in seen_pids:
                # one entry per spawned process (a rustup proxy re-executes the real formatter in the same process)
                seen_pids.add(pid)
                execs.append(os.path.basename(path))
        elif pid == main_pid and call in ("openat", "open", "creat", "unlink", "unlinkat", "rename", "renameat", "mkdir", "mkdirat"):
            pm = _re.search(r'"([^"]*)"', rest)
            path = pm.group(1) if pm else "?"
            wr = call not in ("openat", "open") or _re.search(r"O_WRONLY|O_RDWR|O_CREAT|O_TRUNC|O_APPEND", rest)
            if wr and os.path.abspath(path) not in (tp, ip) and not path.startswith("/dev/"):
                writes.append(path)
            elif not wr and os.path.abspath(path) not in (tp, ip) and not path.startswith(("/dev/", "/proc/", "/sys/", "/etc/", "/lib", "/usr/", "/root/.rustup", "/root/.cargo", "/opt/")) \
                    and not _re.search(r"\.so(\.\d+)*$", path) and "ENOENT" not in ln.split(")")[-1] + ln:
                reads.append(path)
        elif pid == main_pid and call in ("connect", "socket"):
            nets.append(call)
    n_ok = sum(1 for l in open(tp) if '"ev":"obs"' in l.replace(" ", "") and json.loads(l).get("ret", {}).get("kind") == "ok")
    return {"ev": "sys", "id": tag, "rustfmt": rustfmt, "n_calls": n_ok, "execs": execs, "writes": writes, "nets": nets, "reads": sorted(set(reads))}


def check_C18(tier, seed):
    rep = Report("C18", tier, seed)
    rng = random.Random(seed)
    quick = tier == "quick"
    r = run_mc("MC_History.tla", "MC_History.cfg", workers=8)
    rep.add_mc("MC_History(2 callers x 7 phases)", r, "every interleaving at phase granularity; Pure and NoSharedState")
    rep.add_selftest("MC_History_mut(Leak=5)", run_mc("MC_History.tla", "MC_History_mut.cfg", workers=4, expect_violation=True))
    # the type walk in front of the struct phase at recursion-step granularity (state touched INSIDE a phase): specification, the mutant with a
    # process-wide depth counter, and the same mutant with too little parallelism to show (why the barrier groups below use 16 threads)
    rf = run_mc("HistoryFine.tla", "MC_HistoryFine.cfg", workers=2, tag="hfine")
    rep.add_mc("HistoryFine(3 callers x depth 3)", rf, "every interleaving of single recursion steps; Pure, CounterIsSum, termination under weak fairness")
    rep.add_selftest("MC_HistoryFine_mut(SharedCounter: guard on a process-wide depth)", run_mc("HistoryFine.tla", "MC_HistoryFine_mut.cfg", workers=2, expect_violation=True, tag="hfine_mut"))
    rep.add_mc("HistoryFine(SharedCounter, 2 callers x depth 3 <= limit 6)", run_mc("HistoryFine.tla", "MC_HistoryFine_two.cfg", workers=2, tag="hfine_two"),
               "with Callers * Depth <= Limit the shared guard cannot be observed: the parallelism an experiment needs")
    scheds = sorted(set(tuple(c["schedule"]) for c in r.cases))
    rng.shuffle(scheds)
    nsh = 40 if quick else 160
    ovs = [F.opts(), F.opts(bmh=True, bmv=True), F.opts(enc=True, mv="glam", serde=True), F.opts(bmh=True, mv="nalgebra", validate="all"),
           F.opts(bmv=True, enc=True, mv="glam", rustfmt=True)]
    L = []
    for i in range(nsh):
        S, has_rt = F.role_shader(rng)
        o = dict(ovs[i % len(ovs)])
        if has_rt:
            o.update(enc=True, bmh=False)
        L.append({"id": "h-%04d" % i, "family": "history", "S": S, "opts": o, "repeat": 2})
    for i, S in enumerate(F.stress_shaders(rng)):
        L.append({"id": "h-stress-%d" % i, "family": "history", "S": S, "opts": F.opts(bmh=True, serde=True), "repeat": 12})
    # include variants: the path is only ever spliced into include_str!; what the working directory holds under that name is irrelevant
    for i in range(4):
        S, has_rt = F.role_shader(rng)
        L.append({"id": "h-inc-%d" % i, "family": "history", "S": S, "opts": dict(F.opts(enc=True, mv="glam"), include=["shader.wgsl", "shaders/main.wgsl", "../x.wgsl", "shader.wgsl"][i]), "repeat": 1})
    # programs above the OS pipe buffer with the formatter on (also run concurrently below)
    for i, S in enumerate([F.wide(120, 150), F.wide(300, 20)]):
        L.append({"id": "h-large-%d" % i, "family": "history", "S": S, "opts": F.opts(rustfmt=True), "repeat": 1})
    for i, (name, text) in enumerate(repo_shaders()):
        L.append({"id": "h-repo-%d" % i, "family": "history", "wgsl": text, "opts": F.opts(bmv=True, enc=True, mv="glam"), "repeat": 2})
    for i, d_ in enumerate([[(0, 0), (0, 1)], [(0, 1), (0, 0)], [(1, 0), (0, 0)], [(0, 0), (1, 0)]]):
        L.append({"id": "h-anagram-%d" % i, "family": "history", "S": F.bgd_shader([{"g": g, "b": b} for g, b in d_], use=True), "opts": F.opts(), "repeat": 1})
    # near-collisions: inputs that agree in everything a lossy cache key might look at, and differ in one thing
    def twin(vty, aty):
        return {"structs": [{"name": "VertexInput", "members": [{"name": "v0", "ty": vty, "io": {"k": "loc", "n": 0}}, {"name": "v1", "ty": {"k": "vec", "n": 2, "s": "f32"}, "io": {"k": "loc", "n": 1}}]},
                            {"name": "Store", "members": [{"name": "a", "ty": {"k": "array", "n": 4, "e": aty}}, {"name": "b", "ty": {"k": "scalar", "s": "f32"}}]}],
                "globals": [{"name": "store", "space": "storage_rw", "group": "0", "binding": "0", "ty": {"k": "struct", "name": "Store"}}, {"name": "pc", "space": "push", "ty": {"k": "vec", "n": 4, "s": "f32"}}],
                "consts": [], "overrides": [], "functions": [],
                "entries": [{"name": "vs_main", "stage": "vertex", "params": [{"k": "struct", "name": "v", "ty": "VertexInput"}], "result": {"k": "builtin", "b": "position"}, "body": [{"k": "access", "g": "pc", "how": "load"}], "wg": []},
                            {"name": "cs_main", "stage": "compute", "params": [], "body": [{"k": "access", "g": "store", "how": "load"}], "wg": ["8"]}]}
    twins = [twin({"k": "vec", "n": 2, "s": "f32"}, {"k": "vec", "n": 3, "s": "f32"}), twin({"k": "vec", "n": 4, "s": "u32"}, {"k": "vec", "n": 4, "s": "f32"}),
             twin({"k": "vec", "n": 2, "s": "f32"}, {"k": "vec", "n": 4, "s": "u32"}), twin({"k": "scalar", "s": "i32"}, {"k": "vec", "n": 3, "s": "f32"})]
    base_o = F.opts(bmv=True, enc=True, mv="glam")
    for i, T in enumerate(twins):
        L.append({"id": "h-twin-%d" % i, "family": "history", "S": T, "opts": base_o, "repeat": 1})
    for i, flip in enumerate([{"bmv": False}, {"bmh": True, "enc": False}, {"enc": False}, {"serde": True}, {"mv": "rust"}, {"mv": "nalgebra", "enc": False}, {"rustfmt": True}, {"validate": "all"},
                              {"validate": "empty"}, {"validate": "all-PUSH_CONSTANT"}, {"validate": "only-PUSH_CONSTANT"}, {"include": "a.wgsl"}, {"include": "b.wgsl"}, {"include": "dir/a.wgsl"}, {"include": "dir\\a.wgsl"}, {"include": "..\\x\\a.wgsl"}]):
        L.append({"id": "h-flip-%d" % i, "family": "history", "S": twins[0], "opts": dict(base_o, **flip), "repeat": 1})
    L.append({"id": "h-snake", "family": "history", "repeat": 3, "opts": F.opts(),
              "S": {"structs": [{"name": "VertexInput", "members": [{"name": "a", "ty": F.VEC4, "io": {"k": "loc", "n": 0}}]}, {"name": "vertexInput", "members": [{"name": "b", "ty": F.VEC4, "io": {"k": "loc", "n": 1}}]}],
                    "globals": [], "consts": [], "overrides": [], "functions": [],
                    "entries": [{"name": "vs_main", "stage": "vertex", "params": [{"k": "struct", "name": "p", "ty": "VertexInput"}, {"k": "struct", "name": "q", "ty": "vertexInput"}], "result": {"k": "builtin", "b": "position"}, "body": [], "wg": []}]}})
    L.append({"id": "h-caseclash", "family": "history", "repeat": 1, "opts": F.opts(rustfmt=True),
              "S": {"structs": [], "globals": [], "consts": [], "overrides": [], "functions": [],
                    "entries": [{"name": "main", "stage": "fragment", "params": [], "body": [], "wg": []}, {"name": "Main", "stage": "compute", "params": [], "body": [], "wg": ["1"]}]}})
    kw = {"structs": [{"name": "KW", "members": [{"name": "box", "ty": {"k": "scalar", "s": "f32"}}]}],
          "globals": [{"name": "kwbuf", "space": "storage_r", "group": "0", "binding": "0", "ty": {"k": "struct", "name": "KW"}}], "consts": [], "overrides": [], "functions": [],
          "entries": [{"name": "main", "stage": "compute", "params": [], "body": [{"k": "access", "g": "kwbuf", "how": "addr"}], "wg": ["1"]}]}
    for i in range(3):
        L.insert(1 + 40 * i, {"id": "h-panics-%d" % i, "family": "history", "S": kw, "opts": F.opts(rustfmt=False), "repeat": 1})
    # (i) in one process, with repeats
    evA = run_vdriver_raw("gen", L, "C18_A", extra=["--no-project", "--no-s"])
    # (ii) another process: reversed order (different history of previous calls), other cwd, scrubbed environment
    # working directories that hold files under the include paths, with different / identical / no contents
    plant = os.path.join(WORK, "runs", "C18_cwd_planted")
    shutil.rmtree(plant, ignore_errors=True)
    os.makedirs(os.path.join(plant, "shaders"))
    open(os.path.join(plant, "shader.wgsl"), "w").write("// something else entirely\n@fragment fn other() {}\n")
    open(os.path.join(plant, "shaders", "main.wgsl"), "w").write("")
    open(os.path.join(WORK, "runs", "x.wgsl"), "w").write("@compute @workgroup_size(1) fn unrelated() {}\n")
    evB = run_vdriver_raw("gen", list(reversed(L)), "C18_B", cwd=plant, clean_env=True,
                          env={"RUST_BACKTRACE": "1", "TMPDIR": "/nonexistent", "LANG": "tr_TR.UTF-8", "VERIF_NOISE": str(rng.random()),
                               # variables a tool might be tempted to honour: a formatter override that is not a formatter, a config path, colour and log switches
                               "RUSTFMT": "/bin/cat", "RUSTFMT_CONFIG": "/nonexistent/rustfmt.toml", "CARGO_PKG_RUST_VERSION": "1.56", "NO_COLOR": "1", "RUST_LOG": "trace",
                               "WGSL_TO_WGPU_RUSTFMT": "0", "WGPU_VALIDATION": "0", "NAGA_CAPABILITIES": "0"},
                          extra=["--no-project", "--no-s"])
    # (iii) a third process with yet another order
    L3 = L[:]
    rng.shuffle(L3)
    evC = run_vdriver_raw("gen", L3, "C18_C", cwd=WORK, extra=["--no-project", "--no-s"])
    # (iv) exported interleavings replayed on real threads (sync hooks hand the turn over)
    groups = []
    per_pair = 10 if quick else 60
    k = 0
    for i in range(0, len(L) - 1):
        for j in range(per_pair):
            groups.append({"id": "s-%04d-%02d" % (i, j), "cases": [L[i], L[(i + 1 + j) % len(L)]], "schedule": list(scheds[k % len(scheds)])})
            k += 1
    evD = run_vdriver_raw("sched", groups, "C18_D")
    # (v) free-running threads, eight at a time
    fgroups = [{"id": "f-%04d" % i, "cases": [L[(i + q) % len(L)] for q in range(8)], "schedule": []} for i in range(0, len(L), 2)]
    large = [c for c in L if c["id"].startswith("h-large")]
    fgroups += [{"id": "f-large-%d" % i, "cases": [large[(i + q) % len(large)] for q in range(6)], "schedule": []} for i in range(3)]
    # three times as many calls as cores inside the formatter at once
    fmt_small = [dict(c, opts=dict(c["opts"], rustfmt=True)) for c in L[:6]]
    fgroups += [{"id": "f-fmt-many-%d" % i, "cases": [fmt_small[(i + q) % len(fmt_small)] for q in range(3 * (os.cpu_count() or 16))], "schedule": []} for i in range(2)]
    evE = run_vdriver_raw("sched", fgroups, "C18_E")
    # (v+) true parallelism inside one phase: N threads run the same call again and again and leave the sync point in front of the struct
    #      phase (resp. in front of the stage analysis) together, on shaders whose type walk is deep (14 nested structs under each of many
    #      buffers) or whose call graph is; one more process runs each of them alone for reference
    def deep_types(n_buf, depth):
        T = {"structs": [], "globals": [], "consts": [], "overrides": [], "functions": [], "entries": []}
        for b in range(n_buf):
            T["structs"].append({"name": "N%d_0" % b, "members": [{"name": "v", "ty": F.VEC4}]})
            for l in range(1, depth):
                T["structs"].append({"name": "N%d_%d" % (b, l), "members": [{"name": "inner", "ty": {"k": "struct", "name": "N%d_%d" % (b, l - 1)}}, {"name": "w", "ty": F.VEC4}]})
            T["globals"].append({"name": "deep%d" % b, "space": "storage_r", "group": "0", "binding": str(b), "ty": {"k": "struct", "name": "N%d_%d" % (b, depth - 1)}})
        T["entries"].append({"name": "main", "stage": "compute", "params": [], "wg": ["1"], "body": [{"k": "access", "g": "deep0", "how": "addr"}]})
        return T
    deep = [{"id": "h-deep-%d" % i, "family": "history", "S": S_, "opts": F.opts(enc=True, mv="glam"), "repeat": 0}
            for i, S_ in enumerate([deep_types(6, 14), deep_types(24, 13), deep_types(3, 9), F.chain(30, True), F.diamond(12, True)])]
    evH0 = run_vdriver_raw("gen", deep, "C18_H0", extra=["--no-project", "--no-s"])
    ncpu = os.cpu_count() or 16
    bgroups = []
    for i, c in enumerate(deep):
        for point, rounds in (("stages", 40 if quick else 150), ("bind_group_data", 10 if quick else 30)):
            bgroups.append({"id": "b-%d-%s" % (i, point), "cases": [c] * min(ncpu, 16), "schedule": [], "barrier": point, "rounds": rounds})
    bgroups.append({"id": "b-mixed", "cases": [deep[q % len(deep)] for q in range(min(ncpu, 16))], "schedule": [], "barrier": "stages", "rounds": 40 if quick else 150})
    evH = run_vdriver_raw("sched", bgroups, "C18_H", timeout=1200)
    # (v') one long history in one process: 300 calls alternating over the shaders, then every shader once more
    longL = [dict(L[(7 * q) % len(L)], repeat=0) for q in range(300 if quick else 3000)] + [dict(c, repeat=0) for c in L]
    evF = run_vdriver_raw("gen", longL, "C18_F", extra=["--no-project", "--no-s"])
    # (v'') the formatter comes and goes during the life of one process: a call that finds a working formatter (however slow) returns what
    #       every such call returns, whatever earlier calls ran into (formatter missing, failing, killed)
    fmt_env()
    os.environ["VERIF_FMT_SLOW_S"] = "6.5" if quick else "21"
    G = []
    for i, c in enumerate([c for c in L if c["id"].startswith("h-0")][:2]):
        for j, plan in enumerate(["ok", "absent", "ok", "fail_no_read", "ok", "kill_after_read", "very_slow", "ok", "absent"]):
            G.append(dict(c, id="h-fmt-%d-%d" % (i, j), opts=dict(c["opts"], rustfmt=True), fmt_plan=plan, repeat=0))
    for j, plan in enumerate(["ok", "fail_no_read", "ok", "kill_no_read", "ok_no_read", "ok"]):
        G.append(dict(large[0], id="h-fmt-large-%d" % j, opts=dict(large[0]["opts"], rustfmt=True), fmt_plan=plan, repeat=0))
    evG = run_vdriver_raw("gen", G, "C18_G", extra=["--no-project", "--no-s"])
    # (vi) system calls of the calling process: nothing is spawned or opened for writing, except one formatter per call when asked
    sys_events = []
    for fmt in (False, True):
        sc = [dict(c, opts=dict(c["opts"], rustfmt=fmt), repeat=0) for c in (L[:5] + [c for c in L if c["id"].startswith(("h-large", "h-inc"))][:3])]
        sys_events.append(strace_calls(sc, "C18_sys_%d" % fmt, fmt))
    by_src = {}
    order = []
    total = 0
    env_events = []
    for tag, evs in (("A", evA), ("B", evB), ("C", evC), ("D", evD), ("E", evE), ("F", evF), ("G", evG), ("H0", evH0), ("H", evH)):
        if tag == "D":
            sched_events = [e for e in evs if e["ev"] == "sched"]
        if tag in ("D", "E", "H"):
            env_events += [e for e in evs if e["ev"] == "envstate"]
        for c, o in pairs_of(evs):
            c = dict(c); o = dict(o)
            c["id"] = o["id"] = "%s:%s" % (tag, c["id"])
            c["has_s"] = False
            c.pop("S", None)
            if c["src_sha"] not in by_src:
                by_src[c["src_sha"]] = []
                order.append(c["src_sha"])
            by_src[c["src_sha"]].append((c, o))
            total += 1
    d = os.path.join(WORK, "runs", "C18_merged")
    os.makedirs(d, exist_ok=True)
    tp = os.path.join(d, "trace.ndjson")
    with open(tp, "w") as f:
        for sha in order:
            for c, o in by_src[sha]:
                f.write(json.dumps(c) + "\n" + json.dumps(o) + "\n")
        for e in sched_events + sys_events + env_events:
            f.write(json.dumps(e) + "\n")
    full = sum(1 for e in sched_events if len(e["order"]) == len(e["schedule"]))
    rep.notes.append("%d of %d scheduled runs followed their exported interleaving to the end (the rest finished a call early)" % (full, len(sched_events)))
    if sched_events and full == 0:
        raise ToolError("no scheduled run followed its interleaving: sync hooks missing?")
    tr = validate_trace(tp, "C18")
    rep.evaluations += total
    for c in L:
        rep.distinct.add(src_key(c))
    handle_verdicts(rep, tr, {}, "history")
    rep.sample({"schedule": list(scheds[0]), "pair": [L[0]["id"], L[1]["id"]]})
    rep.sample({"case": L[0]})
    rep.notes.append("%d calls: sequential with repeats, 2 other processes (reversed / shuffled order, other cwd, scrubbed env), %d scheduled thread pairs over %d distinct exported interleavings, %d free-running 8-thread groups"
                     % (total, len(groups), min(len(scheds), len(groups)), len(fgroups)))
    return finish(rep)


FMT_PLANS = ["ok", "slow", "fail_after_read", "slow_read", "fail_no_read", "empty", "ok_no_read", "ok_partial_read", "kill_no_read", "kill_after_read", "kill_mid_read",
             "kill_mid_output", "term_after_read", "absent", "near_swap", "near_str_ws", "near_prefix", "near_twice", "near_source_ws", "near_field_swap", "near_swap_raw", "near_str_ws_raw", "near_twice_raw", "near_source_ws_raw", "noexec", "isdir", "fail_utf8_cut", "kill_utf8_cut", "ok_utf8_cut", "near_str_case", "near_str_case_raw", "near_drop_last", "near_drop_last_raw", "garbage_utf8_96", "ok_sigchld_ignored"]


def describe_fmt(case, events, matched):
    ev = events[matched] if matched < len(events) else {}
    obs = [e for e in events if e.get("ev") == "obs"]
    ret = obs[0]["ret"] if obs else {}
    if ev.get("ev") == "obs":
        if ret.get("kind") == "panic":
            return "panicked (%s) under formatter plan %s" % (ret.get("msg", "")[:120], case.get("fmt_plan"))
        if ret.get("kind") == "timeout":
            return "did not return (hang) under formatter plan %s" % case.get("fmt_plan")
        if obs[0].get("zombie"):
            return "returned without waiting for the formatter process it had started (plan %s): a child is left behind" % case.get("fmt_plan")
        if ret.get("kind") == "ok" and obs[0].get("tokens_sha") != obs[0].get("ref_tokens_sha"):
            return "returned a different program than with the formatter off (len %s vs %s) under plan %s" % (obs[0].get("text_len"), obs[0].get("ref_len"), case.get("fmt_plan"))
    return "events %s are not a behaviour of Format.tla for plan %s (stuck at %s)" % ([e.get("name", e.get("ev")) for e in events[1:]], case.get("fmt_plan"), json.dumps(ev)[:200])


def fmt_env():
    """environment of the fault-injecting formatter stub (cases with a `fmt_plan`)"""
    real = shutil.which("rustfmt")
    if not real:
        raise ToolError("no rustfmt on PATH")
    empty = os.path.join(WORK, "emptydir")
    os.makedirs(os.path.join(empty, "isdir", "rustfmt"), exist_ok=True)
    os.makedirs(os.path.join(empty, "noexec"), exist_ok=True)
    nx = os.path.join(empty, "noexec", "rustfmt")
    if not os.path.exists(nx):
        open(nx, "w").write("#!/bin/sh\ncat\n")
    os.chmod(nx, 0o644)
    os.environ.update({"VERIF_STUB_DIR": os.path.join(HARNESS, "stubs"), "VERIF_EMPTY_DIR": empty, "VERIF_REAL_RUSTFMT": real})


def check_C19(tier, seed):
    rep = Report("C19", tier, seed)
    rng = random.Random(seed)
    quick = tier == "quick"
    r = run_mc("MC_Format.tla", "MC_Format.cfg", workers=4)
    rep.add_mc("MC_Format(Tolerant, pipe capacity 2, sizes {1,3}, 6 plans)", r, "Safe, FormattedOnlyIfComplete, liveness Returns under weak fairness, deadlock check = hang")
    rep.add_selftest("MC_Format_mut(Tolerant=FALSE: the original unwrap / accept-any-exit-0 code)", run_mc("MC_Format.tla", "MC_Format_mut.cfg", workers=2, expect_violation=True))
    rep.add_selftest("MC_Format_stream(streaming child, outside the listed faults: deadlock found)", run_mc("MC_Format.tla", "MC_Format_stream.cfg", workers=2, expect_violation=True))
    fmt_env()
    small = [F.role_shader(rng)[0] for _ in range(3 if quick else 12)]
    large = [F.wide(120, 150), F.wide(300, 20)] if quick else [F.wide(120, 150), F.wide(300, 20), F.wide(60, 400), F.wide(500, 4)]
    huge = F.wide(700, 300)
    cases = []
    k = 0
    for cls, shaders in (("small", small), ("large", large)):
        for si, S in enumerate(shaders):
            for plan in FMT_PLANS:
                for late in (False, True):
                    if plan in ("ok", "slow", "absent", "noexec", "isdir") and late:
                        continue
                    cases.append({"id": "fmt-%s%d-%s%s" % (cls, si, plan, "-late" if late else ""), "family": "fmt-" + plan, "S": S,
                                  "opts": F.opts(rustfmt=True, enc=True, mv="glam"), "fmt_plan": plan, "fmt_late": late, "size_class": cls})
                    k += 1
    for i, S in enumerate(small[:2]):
        for plan in ("absent", "noexec", "ok"):
            cases.append({"id": "fmt-nohome%d-%s" % (i, plan), "family": "fmt-" + plan, "S": S, "opts": F.opts(rustfmt=True, enc=True, mv="glam"), "fmt_plan": plan, "fmt_late": False, "size_class": "small",
                          "env": {"HOME": None, "CARGO_HOME": None, "RUSTUP_HOME": None, "USER": None}})
    for plan in ("near_drop_last", "near_drop_last_raw", "near_twice", "near_swap", "ok", "fail_after_read"):
        cases.append({"id": "fmt-huge-%s" % plan, "family": "fmt-" + plan, "S": huge, "opts": F.opts(rustfmt=True, enc=True, mv="glam"), "fmt_plan": plan, "fmt_late": False, "size_class": "large"})
    # formatter-on = formatter-off, token for token, on many more shaders (real rustfmt through the stub)
    for i in range(40 if quick else 600):
        S = F.role_shader(rng)[0] if i % 2 else F.rand_shader(rng, names=True)
        cases.append({"id": "fmt-eq-%04d" % i, "family": "fmt-equivalence", "S": S, "opts": F.opts(rustfmt=True, enc=True, bmv=(i % 3 == 0), mv=["rust", "glam", "nalgebra"][i % 3]),
                      "fmt_plan": "ok", "size_class": "small"})
    # raw sources whose TEXT contains token-like fragments (" ; ", " , ", "( )", "{ }", quotes): only the program may be reformatted, never the embedded string
    spaced = ["@group(0) @binding(0) var<uniform> a : vec4<f32> ;\n@fragment\nfn fs_main ( ) -> @location(0) vec4<f32> {\n    var s = vec4<f32> ( 0.0 ) ;\n    for ( var i = 0u ; i < 4u ; i ++ ) { s = s + a ; }\n    return s ;\n}\n",
              "// a ; b , c ( d ) { e } [ f ] < g > :: h -> i => j ' k \" l \\ m\n@compute @workgroup_size(1) fn cs ( ) { }\n",
              "/* ; ; ; , , ,  ::  */ @vertex fn vs_main ( ) -> @builtin(position) vec4<f32> { return vec4<f32> ( ) ; }\n"]
    for i, src in enumerate(spaced + [t for _, t in F.VALID_ODD] + [t for _, t in repo_shaders()]):
        cases.append({"id": "fmt-raw-%03d" % i, "family": "fmt-equivalence-raw", "wgsl": src, "opts": F.opts(rustfmt=True, bmv=True, mv="glam"), "fmt_plan": "ok", "size_class": "small"})
        cases.append({"id": "fmt-raw-%03d-fb" % i, "family": "fmt-equivalence-raw", "wgsl": src, "opts": F.opts(rustfmt=True, bmv=True, mv="glam"), "fmt_plan": "fail_after_read", "size_class": "small"})
    # the same source and options through both public functions and with several include paths, formatter on every time: whatever the
    # formatter path remembers between calls, the program returned is the one for THIS call
    for i, S in enumerate(small[:2] + [F.rand_shader(rng, names=True)]):
        for j, inc in enumerate([None, "a.wgsl", "shaders/b.wgsl", None, "a.wgsl", "dir with space/c.wgsl"]):
            o = F.opts(rustfmt=True, enc=True, mv="glam") if inc is None else F.opts(rustfmt=True, enc=True, mv="glam", include=inc)
            cases.append({"id": "fmt-variants-%d-%d" % (i, j), "family": "fmt-same-source-other-variant", "S": S, "opts": o, "fmt_plan": ("ok", "ok", "fail_after_read")[j % 3], "size_class": "small"})
    by_id = {c["id"]: c for c in cases}
    trace = run_vdriver(cases, "C19_fmt", keep=["mods"], case_timeout=30)
    # sanity: size classes are what they claim; hooks present
    evs = [json.loads(l) for l in open(trace)]
    seen_fmt_hook = False
    for e in evs:
        if e.get("ev") == "phase" and str(e.get("name", "")).startswith("fmt."):
            seen_fmt_hook = True
        if e.get("ev") == "obs" and "ref_len" in e:
            c = by_id.get(e["id"], {})
            if (c.get("size_class") == "large") != (e["ref_len"] > 65536):
                raise ToolError("size class of %s is wrong (program is %d bytes)" % (e["id"], e["ref_len"]))
    if not seen_fmt_hook:
        raise ToolError("no fmt.* hook events recorded: hooks missing")
    # drop cases outside the domain (generator panics / errors with the formatter off)
    keep_ids = set(e["id"] for e in evs if e.get("ev") == "obs" and ("ref_tokens_sha" in e or e.get("ret", {}).get("kind") == "timeout"))
    ft = trace + ".dom"
    cur_ok = False
    with open(ft, "w") as f:
        for e in evs:
            if e.get("id", None) in keep_ids or (e.get("ev") not in ("case", "obs") and cur_ok):
                f.write(json.dumps(e) + "\n")
            if e.get("ev") == "case":
                cur_ok = e["id"] in keep_ids
    n_calls, rejected = validate_by_reachability(ft, "Trace_Format.tla", "Trace_Format.cfg", describe_fmt)
    rep.evaluations += len(cases)
    rep.traces += n_calls
    rep.families["formatter"] = n_calls
    for c in cases:
        rep.distinct.add(src_key(c) + str(c.get("fmt_plan")) + str(c.get("fmt_late")))
    findings = load_findings()
    for rj in rejected:
        v = {"id": rj["case"]["id"], "family": rj["case"].get("family", ""), "msg": rj["why"], "prop": "C19"}
        f = match_finding("C19", v, by_id.get(v["id"]), findings)
        if f:
            rep.known.append((f, v))
        else:
            rep.violations.append((v, by_id.get(v["id"])))
    rep.sample({"case_id": cases[0]["id"], "plan": cases[0]["fmt_plan"], "events": [e for e in evs if e.get("id") == cases[0]["id"] or e.get("ev") in ("phase", "fmt.wait")][:8]})
    rep.sample({"plans": FMT_PLANS, "timing_variants": ["parent writes at once", "parent delayed 150 ms at fmt.spawned (child already gone)"], "size_classes": ["small", "large (> 64 KiB program text)"]})
    return finish(rep)


def check_static_structs(prop, tier, seed):
    """C05 (numbers) / C06: struct families under all representations, judged on the projected struct items"""
    rep = Report(prop, tier, seed)
    rng = random.Random(seed)
    quick = tier == "quick"
    exported = []
    for mode in ("pairs", "triples", "arrays"):
        r = run_mc("MC_Layout.tla", "MC_Layout.cfg", workers=8, consts={"Mode": '"%s"' % mode}, tag="layout_" + mode)
        rep.add_mc("MC_Layout(%s)" % mode, r, "leaf table x compositions; sanity theorems of Layout.tla; every struct exported")
        exported += r.cases if (not quick or mode != "pairs") else r.cases[::2]
    keep = ["structs"]
    cases = []
    for i, e in enumerate(exported):
        for j, mv in enumerate(("rust", "glam", "nalgebra")):
            cases.append({"id": "lay-%05d-%s" % (i, mv), "family": "layout-table", "S": e["S"],
                          "opts": F.opts(bmh=(prop == "C05" or j == 0), enc=True, mv=mv)})
    drive_and_judge(rep, prop, cases, "table", keep)
    rcases = []
    for i in range(300 if quick else 6000):
        S, has_rt = F.role_shader(rng)
        mv = ("rust", "glam", "nalgebra")[i % 3]
        rcases.append({"id": "role-%05d" % i, "family": "struct-roles-random", "S": S,
                       "opts": F.opts(bmh=not has_rt, enc=True, mv=mv, serde=(i % 5 == 0))})
    # the front end accepts repeated member names: every member still becomes a field, in order
    for i, names in enumerate([["a", "b", "a"], ["x", "x"], ["m", "n", "m", "n"]]):
        rcases.append({"id": "dupmem-%d" % i, "family": "struct-duplicate-member-names", "opts": F.opts(mv=("rust", "glam")[i % 2]),
                       "S": {"structs": [{"name": "D", "members": [{"name": nm_, "ty": [{"k": "scalar", "s": "f32"}, {"k": "vec", "n": 2, "s": "f32"}, {"k": "scalar", "s": "u32"}, {"k": "vec", "n": 4, "s": "f32"}][j]} for j, nm_ in enumerate(names)]}],
                             "globals": [{"name": "d", "space": "storage_r", "group": "0", "binding": "0", "ty": {"k": "struct", "name": "D"}}], "consts": [], "overrides": [], "functions": [],
                             "entries": [{"name": "main", "stage": "compute", "params": [], "body": [{"k": "access", "g": "d", "how": "addr"}], "wg": ["1"]}]}})
    # 64-bit integer members (SHADER_INT64): the generator at hand refuses them with a panic, which is outside these properties; a generator
    # that accepts them owes the same element types as for every other scalar
    for i, sc_ in enumerate(("i64", "u64")):
        mem = [{"name": "s", "ty": {"k": "scalar", "s": sc_}}] + [{"name": "v%d" % n_, "ty": {"k": "vec", "n": n_, "s": sc_}} for n_ in (2, 3, 4)] + [{"name": "a", "ty": {"k": "array", "n": 3, "e": {"k": "vec", "n": 3, "s": sc_}}}]
        for j, mv in enumerate(("rust", "glam", "nalgebra")):
            rcases.append({"id": "int64-%s-%s" % (sc_, mv), "family": "struct-64-bit-integers", "opts": F.opts(mv=mv, enc=(j == 1), bmh=(j == 0)),
                           "S": {"structs": [{"name": "Wide", "members": mem}], "globals": [{"name": "wide", "space": "storage_r", "group": "0", "binding": "0", "ty": {"k": "struct", "name": "Wide"}}],
                                 "consts": [], "overrides": [], "functions": [], "entries": [{"name": "main", "stage": "compute", "params": [], "body": [{"k": "access", "g": "wide", "how": "addr"}], "wg": ["1"]}]}})
    drive_and_judge(rep, prop, rcases, "roles", keep)
    # every struct role of MC_Structs (reachable from a variable AND entry parameter / result, builtin members before located ones, ...)
    rs = structs_mc(rep, quick, early=EARLY, check_work=False)
    sc = []
    for i, e in enumerate(rs.cases[::(3 if quick else 1)]):
        mv = ("rust", "glam", "nalgebra")[i % 3]
        sc.append({"id": "srole-%05d" % i, "family": "struct-roles-exported", "S": e["S"], "opts": F.opts(bmh=True, bmv=(i % 2 == 0), mv=mv)})
    drive_and_judge(rep, prop, sc, "sroles", keep)
    rep.exhaustive = True
    return rep


def ident_shaders(rng):
    """identifier universe: non-ASCII, Rust keywords naga accepts, names of fixed generated items"""
    out = []
    names = ["box", "dyn", "in", "gen", "try", "OverrideConstants", "VertexEntry", "FragmentEntry", "SOURCE", "String", "Option", "Vec", "compute", "bind_groups",
             "caf\u00e9", "\u03b1\u03b2", "\u6570\u636e", "_x", "r#type", "Self_", "crate_", "wgpu", "std", "bytemuck", "device", "pass", "entry", "module", "bindings", "value", "entries", "self_"]
    for n in names:
        if not P_ident(n):
            continue
        # as struct name, member name, global name, const name
        S = {"structs": [{"name": n if n[0].isupper() or not n.isascii() else "Data", "members": [{"name": n if not n[0].isupper() else "field", "ty": F.VEC4}]}],
             "globals": [], "consts": [{"name": n if n.isupper() else "K_" + n, "expr": "1.0"}] if n.isascii() else [], "overrides": [], "functions": [], "entries": []}
        sn = S["structs"][0]["name"]
        S["globals"].append({"name": ("g_" + n) if n[0].isupper() else n, "space": "uniform", "group": "0", "binding": "0", "ty": {"k": "struct", "name": sn}})
        S["entries"].append(F.frag_entry(body=[{"k": "access", "g": S["globals"][0]["name"], "how": "load"}]))
        out.append((n, S))
    return out


def P_ident(n):
    import re
    return re.match(r"^[^\W\d]\w*$", n, re.UNICODE) is not None


def check_C01(tier, seed):
    rep = Report("C01", tier, seed)
    rng = random.Random(seed)
    quick = tier == "quick"
    r = structs_mc(rep, quick, early=EARLY, check_work=False)
    cases = []
    ov = F.all_opts(mvs=("rust", "glam"))
    # role-rich shaders under the derive matrix (encase is only combined with representations encase implements)
    for i in range(24 if quick else 200):
        S, has_rt = F.role_shader(rng, big_arrays=(i % 4 == 0), entry_names=(i % 3 == 0))
        if rng.random() < 0.4:
            S["overrides"] = S["overrides"] + [{"name": "scale", "ty": "f32", "default": "1.0"}, {"name": "count", "ty": "u32", "id": 3}, {"name": "on", "ty": "bool"}][:rng.randint(1, 3)]
        if rng.random() < 0.4:
            table = F.const_table(rng)
            lits = [c for c in table if not c.get("nonscalar") and not any(ch == "K" for ch in c["expr"])]
            S["consts"] = S["consts"] + rng.sample(lits, rng.randint(3, 20)) + [c for c in table if c.get("nonscalar")]
        vecs = [o for o in ov if not (has_rt and (not o["enc"] or o["bmh"]))]
        for j, o in enumerate(rng.sample(vecs, min(len(vecs), 12 if quick else 24))):
            o = dict(o)
            o["rustfmt"] = (j % 6 == 5)
            o["validate"] = ("none", "all")[j % 2]
            cases.append({"id": "mat-%04d-%02d" % (i, j), "family": "compile-matrix", "S": S, "opts": o})
        # nalgebra: against the stub (no encase)
        cases.append({"id": "mat-%04d-na" % i, "family": "compile-nalgebra", "S": S, "opts": F.opts(mv="nalgebra", bmv=True, bmh=not has_rt, serde=True, enc=has_rt)}) if not has_rt else None
    sub = r.cases[::(40 if quick else 4)]
    for i, e in enumerate(sub):
        cases.append({"id": "role-%05d" % i, "family": "compile-roles", "S": e["S"], "opts": dict(ov[(i * 7) % len(ov)], enc=True)})
    # two vertex input structs whose snake-case names coincide
    for i, (a, b) in enumerate([("VertexInput", "vertex_input"), ("InstanceData", "Instance_Data"), ("VertexInput", "InstanceInput")]):
        S = {"structs": [{"name": a, "members": [{"name": "a", "ty": F.VEC4, "io": {"k": "loc", "n": 0}}]}, {"name": b, "members": [{"name": "b", "ty": F.VEC4, "io": {"k": "loc", "n": 1}}]}],
             "globals": [], "consts": [], "overrides": [], "functions": [],
             "entries": [{"name": "vs_main", "stage": "vertex", "params": [{"k": "struct", "name": "p", "ty": a}, {"k": "struct", "name": "q", "ty": b}], "result": {"k": "builtin", "b": "position"}, "body": [], "wg": []}]}
        cases.append({"id": "snake-%d" % i, "family": "compile-ident", "S": S, "opts": F.opts(bmv=True)})
    cases.append({"id": "case-clash-0", "family": "compile-ident", "S": {"structs": [], "globals": [], "consts": [], "overrides": [], "functions": [],
                  "entries": [{"name": "main", "stage": "fragment", "params": [], "body": [], "wg": []}, {"name": "MAIN", "stage": "compute", "params": [], "body": [], "wg": ["1"]},
                              {"name": "Main", "stage": "vertex", "params": [], "body": [], "wg": []}]}, "opts": F.opts()})
    for i, (n, S) in enumerate(ident_shaders(rng)):
        cases.append({"id": "ident-%03d" % i, "family": "compile-ident", "S": S, "opts": F.opts(bmv=True, enc=True, mv="glam", rustfmt=(i % 2 == 1))})
    for i, gl in enumerate([[{"name": "pc", "space": "push", "ty": F.VEC4}], [{"name": "pc", "space": "push", "ty": F.VEC4}, {"name": "u", "space": "uniform", "group": "0", "binding": "0", "ty": F.VEC4}],
                            [{"name": "u", "space": "uniform", "group": "0", "binding": "0", "ty": F.VEC4}], []]):
        cases.append({"id": "noentry-%d" % i, "family": "compile-no-entry-point", "S": {"structs": [], "globals": gl, "consts": [{"name": "K", "decl": "u32", "expr": "3u", "expect": "u32:3"}],
                      "overrides": [{"name": "scale", "ty": "f32", "default": "1.0"}] if i % 2 else [], "functions": [], "entries": []}, "opts": F.opts(validate=("none", "all")[i % 2])})
    dup = {"structs": [{"name": "D", "members": [{"name": "a", "ty": {"k": "scalar", "s": "f32"}}, {"name": "b", "ty": {"k": "vec", "n": 2, "s": "f32"}}, {"name": "a", "ty": {"k": "scalar", "s": "u32"}}]}],
           "globals": [{"name": "d", "space": "storage_r", "group": "0", "binding": "0", "ty": {"k": "struct", "name": "D"}}], "consts": [], "overrides": [], "functions": [],
           "entries": [{"name": "main", "stage": "compute", "params": [], "body": [{"k": "access", "g": "d", "how": "addr"}], "wg": ["1"]}]}
    cases.append({"id": "dup-member-0", "family": "compile-ident", "S": dup, "opts": F.opts()})
    for i, o_ in enumerate([F.opts(bmh=True), F.opts(bmh=True, bmv=True, serde=False), F.opts(enc=True, mv="glam"), F.opts()]):
        cases.append({"id": "big-struct-%d" % i, "family": "compile-large-struct", "opts": o_,
                      "S": {"structs": [{"name": "Big", "members": [{"name": "items", "ty": {"k": "array", "n": 4097, "e": F.VEC4}}, {"name": "n", "ty": {"k": "scalar", "s": "u32"}}]}],
                            "globals": [{"name": "big", "space": "storage_r", "group": "0", "binding": "0", "ty": {"k": "struct", "name": "Big"}}], "consts": [], "overrides": [], "functions": [],
                            "entries": [{"name": "main", "stage": "compute", "params": [], "body": [{"k": "access", "g": "big", "how": "addr"}], "wg": ["1"]}]}})
    # the include variant, with the shader file where the generated module looks for it
    for i, pth in enumerate(["inc_a_%d.wgsl", "shaders/deep/inc_b_%d.wgsl", "dir with space/inc c_%d.wgsl"]):
        S, has_rt = F.role_shader(rng, big_arrays=False)
        cases.append({"id": "include-%d" % i, "family": "compile-include-variant", "S": S, "opts": dict(F.opts(enc=True, mv="glam", rustfmt=(i == 1)), include=pth % i)})
    # entry-point input structs (vertex and fragment inputs, never host-shareable) whose @location members carry @size / @align, under every
    # derive combination: attributes meant for host-shareable structs must not leak onto structs that do not get the derive
    V3 = {"k": "vec", "n": 3, "s": "f32"}
    for i, o_ in enumerate([F.opts(enc=True, mv="glam"), F.opts(enc=True, mv="glam", bmv=True), F.opts(enc=True, serde=True), F.opts(bmh=True, bmv=True), F.opts(enc=True, bmh=True, mv="glam")]):
        F1 = {"k": "scalar", "s": "f32"}
        S = {"structs": [{"name": "VIn", "members": [{"name": "position", "ty": V3, "io": {"k": "loc", "n": 0}, "size": 16}, {"name": "weight", "ty": F1, "io": {"k": "loc", "n": 3}},
                                                      {"name": "uv", "ty": {"k": "vec", "n": 2, "s": "f32"}, "io": {"k": "loc", "n": 1}, "size": 24}, {"name": "layer", "ty": F1, "io": {"k": "loc", "n": 4}},
                                                      {"name": "bias", "ty": F1, "io": {"k": "loc", "n": 5}, "align": 16}, {"name": "tint", "ty": F.VEC4, "io": {"k": "loc", "n": 2}, "align": 16}]},
                         {"name": "FIn", "members": [{"name": "pos", "ty": F.VEC4, "io": {"k": "builtin", "b": "position"}}, {"name": "w", "ty": F1, "io": {"k": "loc", "n": 0}, "size": 8},
                                                      {"name": "k", "ty": F1, "io": {"k": "loc", "n": 2}}, {"name": "c", "ty": F.VEC4, "io": {"k": "loc", "n": 1}}]},
                         {"name": "Cam", "members": [{"name": "m", "ty": F.VEC4}, {"name": "k", "ty": {"k": "scalar", "s": "f32"}, "size": 16}]}],
             "globals": [{"name": "cam", "space": "uniform", "group": "0", "binding": "0", "ty": {"k": "struct", "name": "Cam"}}], "consts": [], "overrides": [], "functions": [],
             "entries": [{"name": "vs_main", "stage": "vertex", "params": [{"k": "struct", "name": "v", "ty": "VIn"}], "result": {"k": "builtin", "b": "position"}, "body": [{"k": "access", "g": "cam", "how": "load"}], "wg": []},
                         {"name": "fs_main", "stage": "fragment", "params": [{"k": "struct", "name": "f", "ty": "FIn"}], "result": {"k": "loc", "n": 0, "ty": F.VEC4}, "body": [], "wg": []}]}
        cases.append({"id": "io-attrs-%d" % i, "family": "compile-io-structs-with-size-align", "S": S, "opts": o_})
    # one source and one option vector through both public functions in one process, formatter on: first with an include path whose file does
    # not exist (that call is history only), then embedded, then with a path whose file is in place
    for i in range(2):
        S, has_rt = F.role_shader(rng, big_arrays=False)
        o_ = F.opts(enc=True, mv="glam", rustfmt=True, bmv=(i == 1))
        cases.append({"id": "variants-%d-0" % i, "family": "compile-same-source-other-variant", "S": S, "opts": dict(o_, include="missing/never_written_%d.wgsl" % i), "nocompile": True})
        cases.append({"id": "variants-%d-1" % i, "family": "compile-same-source-other-variant", "S": S, "opts": dict(o_)})
        cases.append({"id": "variants-%d-2" % i, "family": "compile-same-source-other-variant", "S": S, "opts": dict(o_, include="inc_v_%d.wgsl" % i)})
        cases.append({"id": "variants-%d-3" % i, "family": "compile-same-source-other-variant", "S": S, "opts": dict(o_)})
    # compute entries whose workgroup size is given by overrides (literal default, expression default, no default)
    for i, (ovs, wg) in enumerate([([{"name": "base", "ty": "u32", "default": "4u"}, {"name": "wide", "ty": "u32", "default": "2 * base"}], ["wide"]),
                                   ([{"name": "n", "ty": "u32"}], ["n", "2"]), ([{"name": "wx", "ty": "u32", "default": "16u"}, {"name": "wy", "ty": "u32"}], ["wx", "wy", "1"]),
                                   ([{"name": "k", "ty": "i32", "default": "8"}], ["k"])]):
        cases.append({"id": "wg-override-%d" % i, "family": "compile-workgroup-size-overrides", "S": {"structs": [], "globals": [], "consts": [], "overrides": ovs, "functions": [],
                      "entries": [{"name": "main", "stage": "compute", "params": [], "body": [], "wg": wg}, {"name": "fs_main", "stage": "fragment", "params": [], "body": [], "wg": []}]}, "opts": F.opts(rustfmt=(i % 2 == 0))})
    # Rust keywords the front end accepts, as @location members of a vertex input struct and as variable names (formatter off and on)
    for i, kwn in enumerate(["box", "dyn", "in"]):
        for fmt in (False, True):
            cases.append({"id": "kw-vertex-%d-%d" % (i, fmt), "family": "compile-ident", "opts": F.opts(rustfmt=fmt, bmv=True),
                          "S": {"structs": [{"name": "VertexInput", "members": [{"name": "pos", "ty": F.VEC4, "io": {"k": "loc", "n": 0}}, {"name": kwn, "ty": F.VEC4, "io": {"k": "loc", "n": 1}}]}],
                                "globals": [{"name": "g_" + kwn, "space": "uniform", "group": "0", "binding": "0", "ty": F.VEC4}], "consts": [], "overrides": [], "functions": [],
                                "entries": [{"name": "vs_main", "stage": "vertex", "params": [{"k": "struct", "name": "v", "ty": "VertexInput"}], "result": {"k": "builtin", "b": "position"},
                                             "body": [{"k": "access", "g": "g_" + kwn, "how": "load"}], "wg": []}]}})
    # scalar constants named like the local bindings of the generated root-level functions (identifier patterns resolve to constants)
    for i, nm in enumerate(["device", "source", "module", "entry", "targets", "overrides", "entries", "value", "pass", "bind_group0", "step_mode", "v_in", "layout", "bindings", "index", "Device"]):
        S = {"structs": [{"name": "VIn", "snake": "v_in", "members": [{"name": "p", "ty": F.VEC4, "io": {"k": "loc", "n": 0}}]}],
             "globals": [{"name": "u", "space": "uniform", "group": "0", "binding": "0", "ty": F.VEC4}],
             "consts": [{"name": nm, "decl": "u32", "expr": "3u", "expect": "u32:3"}], "overrides": [{"name": "scale", "ty": "f32", "default": "1.5"}], "functions": [],
             "entries": [{"name": "vs_main", "stage": "vertex", "params": [{"k": "struct", "name": "v", "ty": "VIn"}], "result": {"k": "builtin", "b": "position"}, "body": [], "wg": []},
                         {"name": "fs_main", "stage": "fragment", "params": [], "result": {"k": "loc", "n": 0, "ty": F.VEC4}, "body": [{"k": "access", "g": "u", "how": "load"}], "wg": []}]}
        cases.append({"id": "local-%02d" % i, "family": "compile-ident", "S": S, "opts": F.opts()})
    re_ = run_mc("MC_Entries.tla", "MC_Entries.cfg", workers=4)
    rep.add_mc("MC_Entries", re_, "entry shapes exported")
    for i, e in enumerate(re_.cases[::(3 if quick else 1)]):
        S = dict(e["S"])
        if i % 2:
            S["overrides"] = [{"name": "ov", "ty": "f32", "default": "2.0"}]
        cases.append({"id": "ent-%04d" % i, "family": "compile-entries", "S": S, "opts": F.opts(bmv=True, mv="glam")})
    for i, S in enumerate(F.override_shaders(rng, 30 if quick else 300)):
        cases.append({"id": "ovr-%04d" % i, "family": "compile-overrides", "S": S, "opts": F.opts()})
    # member types outside bytemuck's / encase's vocabulary: f64 under encase, bool in private/workgroup structs
    rl = run_mc("MC_Layout.tla", "MC_Layout.cfg", workers=8, consts={"Mode": '"triples"'}, tag="layoutC01")
    for i, e in enumerate(rl.cases[::(12 if quick else 2)]):
        cases.append({"id": "lay-%04d" % i, "family": "compile-layout-encase", "S": e["S"], "opts": F.opts(enc=True, mv=("glam", "rust")[i % 2], serde=(i % 3 == 0))})
    for i, sp in enumerate(["private", "workgroup"]):
        for j, o in enumerate([F.opts(), F.opts(bmh=True), F.opts(enc=True, mv="glam"), F.opts(serde=True, bmv=True)]):
            S = {"structs": [{"name": "Flags", "members": [{"name": "on", "ty": {"k": "scalar", "s": "bool"}}, {"name": "v", "ty": {"k": "vec", "n": 2, "s": "bool"} if j % 2 else F.VEC4}]}],
                 "globals": [{"name": "flags", "space": sp, "ty": {"k": "struct", "name": "Flags"}}], "consts": [], "overrides": [], "functions": [],
                 "entries": [{"name": "cs_main", "stage": "compute", "params": [], "body": [{"k": "access", "g": "flags", "how": "load"}], "wg": ["1"]}]}
            cases.append({"id": "bool-%d-%d" % (i, j), "family": "compile-bool", "S": S, "opts": o})
    cases = [c for c in cases if c]
    compiled_and_judge(rep, "C01", cases, "real", "real", set(), keep=["mods"])
    rep.assumptions.append("MatrixVectorTypes::Nalgebra is compiled against a layout- and trait-faithful stub (nalgebra is not in the offline cache) and is never combined with encase")
    return finish(rep)


def check_C10(tier, seed):
    rep = Report("C10", tier, seed)
    rng = random.Random(seed)
    quick = tier == "quick"
    cases = []
    for mode in ("glam", "rt"):
        r = run_mc("MC_Layout.tla", "MC_Layout.cfg", workers=8, consts={"Mode": '"%s"' % mode}, tag="layout10_" + mode)
        rep.add_mc("MC_Layout(%s)" % mode, r, "glam-representable members: pairs over the glam leaf table, arrays, arrays of arrays, nested structs, runtime arrays")
        ex = r.cases if not quick else r.cases[::2]
        for i, e in enumerate(ex):
            S = e["S"]
            cases.append({"id": "enc-%s-%04d" % (mode, i), "family": "encase-" + mode, "S": S, "opts": F.opts(enc=True, mv="glam", bmv=(i % 2 == 0), bmh=(i % 5 == 4))})
    # Inner additionally bound as a uniform: the uniform writer is exercised too
    for c in cases:
        for g in c["S"]["globals"]:
            if g["name"] == "inner":
                g["space"] = "uniform"
    # members with explicit @align / @size (encase derives carry no matching attribute), f64 members
    V3 = {"k": "vec", "n": 3, "s": "f32"}
    F32 = {"k": "scalar", "s": "f32"}
    special = [
        ("attrs-0", [{"name": "a", "ty": F32}, {"name": "b", "ty": F32, "align": 16}, {"name": "c", "ty": F32, "size": 16}, {"name": "d", "ty": V3}, {"name": "e", "ty": F32}]),
        ("attrs-1", [{"name": "a", "ty": V3, "size": 32}, {"name": "b", "ty": F32}]),
        ("f64-0", [{"name": "a", "ty": {"k": "scalar", "s": "f64"}}, {"name": "b", "ty": {"k": "vec", "n": 3, "s": "f64"}}]),
        ("big-tail", [{"name": "n", "ty": {"k": "scalar", "s": "u32"}}, {"name": "items", "ty": {"k": "array", "n": 70000, "e": F32}}]),
        ("big-mid", [{"name": "items", "ty": {"k": "array", "n": 65537, "e": {"k": "vec", "n": 4, "s": "f32"}}}, {"name": "n", "ty": {"k": "scalar", "s": "u32"}}]),
        ("tail-256", [{"name": "n", "ty": {"k": "scalar", "s": "u32"}}, {"name": "items", "ty": {"k": "array", "n": 256, "e": F32}}]),
    ]
    for name, mem in special:
        S = {"structs": [{"name": "Data", "members": mem}], "globals": [{"name": "data", "space": "storage_r", "group": "0", "binding": "0", "ty": {"k": "struct", "name": "Data"}}],
             "consts": [], "overrides": [], "functions": [], "entries": [{"name": "main", "stage": "compute", "params": [], "wg": ["1"], "body": [{"k": "access", "g": "data", "how": "load"}]}]}
        cases.append({"id": "enc-" + name, "family": "encase-special", "S": S, "opts": F.opts(enc=True, mv="glam")})
    for i in range(30 if quick else 600):
        S, has_rt = F.role_shader(rng, big_arrays=False)
        cases.append({"id": "enc-role-%04d" % i, "family": "encase-roles", "S": S, "opts": F.opts(enc=True, mv="glam", bmv=(i % 2 == 0), bmh=(i % 5 == 4), serde=(i % 7 == 3))})
    # structs with two roles: vertex input AND storage-bound (padding-free so that the bytemuck vertex derive accepts them)
    V2 = {"k": "vec", "n": 2, "s": "f32"}
    V4 = F.VEC4
    for i, mem in enumerate([[V4, V4], [V4, V2, V2], [V2, V2, V4], [V4], [V4, {"k": "vec", "n": 4, "s": "u32"}], [{"k": "vec", "n": 4, "s": "i32"}, V4, V4],
                                   # with padding in front of the vec4: the bytemuck vertex derive rejects these today (permitted), so they only count if they ever compile
                                   [{"k": "scalar", "s": "f32"}, V4], [V2, V4], [{"k": "scalar", "s": "u32"}, V4, {"k": "scalar", "s": "f32"}]]):
        members = [{"name": "m%d" % j, "ty": t, "io": {"k": "loc", "n": j}} for j, t in enumerate(mem)]
        S = {"structs": [{"name": "Particle", "members": members}],
             "globals": [{"name": "particles", "space": "storage_r", "group": "0", "binding": "0", "ty": {"k": "array", "n": 4, "e": {"k": "struct", "name": "Particle"}}}],
             "consts": [], "overrides": [], "functions": [],
             "entries": [{"name": "vs_main", "stage": "vertex", "params": [{"k": "struct", "name": "p", "ty": "Particle"}], "result": {"k": "builtin", "b": "position"},
                          "body": [{"k": "access", "g": "particles", "how": "load"}], "wg": []}]}
        for j, o in enumerate([F.opts(enc=True, mv="glam", bmv=True), F.opts(enc=True, mv="glam"), F.opts(enc=True, mv="glam", bmv=True, serde=True)]):
            cases.append({"id": "enc-both-%d-%d" % (i, j), "family": "encase-two-roles", "S": S, "opts": o})
    # uniform-bound structs whose WGSL size is not a multiple of 16 (4, 8, 12, 20, 24 bytes), alone and nested in a storage struct, under every
    # target environment a build script can run in
    U32 = {"k": "scalar", "s": "u32"}
    for i, mem in enumerate([[F32], [V2], [F32, F32, F32], [V2, V2, V2], [F32, U32, F32, F32, U32], [V2, F32]]):
        members = [{"name": "m%d" % j, "ty": t} for j, t in enumerate(mem)]
        S = {"structs": [{"name": "Small", "members": members}, {"name": "Outer", "members": [{"name": "head", "ty": {"k": "struct", "name": "Small"}}, {"name": "tail", "ty": F32},
                                                                                          {"name": "items", "ty": {"k": "array", "n": 3, "e": {"k": "struct", "name": "Small"}}}]}],
             "globals": [{"name": "small", "space": "uniform", "group": "0", "binding": "0", "ty": {"k": "struct", "name": "Small"}},
                         {"name": "outer", "space": "storage_r", "group": "0", "binding": "1", "ty": {"k": "struct", "name": "Outer"}}],
             "consts": [], "overrides": [], "functions": [],
             "entries": [{"name": "main", "stage": "compute", "params": [], "wg": ["1"], "body": [{"k": "access", "g": "small", "how": "load"}, {"k": "access", "g": "outer", "how": "load"}]}]}
        for j, env in enumerate(TARGET_ENVS):
            c = {"id": "enc-small-%d-%d" % (i, j), "family": "encase-small-uniform", "S": S, "opts": F.opts(enc=True, mv="glam", bmh=(i % 2 == 1))}
            if env:
                c["env"] = env
            cases.append(c)
    # the same thread is first asked for OTHER representations of the same shaders (history only: not compiled, outside C10's domain):
    # what a call emits for `vec3<f32>` depends on ITS options, not on what the thread produced before
    mixed = []
    for i, c in enumerate(cases):
        if i % 8 == 0:
            mixed.append(dict(c, id=c["id"] + "-pre", family="encase-after-other-representation", nocompile=True,
                              opts=(F.opts(mv="rust"), F.opts(mv="nalgebra", enc=True), F.opts(mv="rust", enc=True, serde=True))[(i // 8) % 3]))
        mixed.append(c)
    cases = mixed
    drive_and_judge(rep, "C10", cases, "static", ["structs"], enforce="C10S")
    compiled_and_judge(rep, "C10", cases, "encase", "shim", {"encase"}, keep=["structs"])
    return finish(rep)


def check_C02(tier, seed):
    rep = Report("C02", tier, seed)
    rng = random.Random(seed)
    quick = tier == "quick"
    r = run_mc("MC_Bindings.tla", "MC_Bindings.cfg", workers=4, consts={"Slice": '"quick"' if quick else '"all"'})
    rep.add_mc("MC_Bindings", r, "complete resource table: specified entry synthesis satisfies the transcribed create_bind_group_layout and check_binding_use rules")
    rep.add_selftest("MC_Bindings_mut(atomic storage textures emitted as ReadWrite)", run_mc("MC_Bindings.tla", "MC_Bindings_mut.cfg", workers=2, expect_violation=True))
    rep.exhaustive = not quick
    cases = cases_from_S(r.cases, "row", "resource-table", vary_validate=False)
    # every row also with the generator's own validation on (what the validator reports about a variable is not what wgpu asks about it)
    cases += [dict(c, id=c["id"] + "-v", opts=dict(c["opts"], validate="all")) for c in cases]
    want = {"wgpu"}
    keep = ["groups", "push_stages", "compute", "fns", "overrides"]
    compiled_and_judge(rep, "C02", cases, "table", "realrun", want, keep=["groups"])
    # random shaders: sparse indices, several groups, stage subsets, helper chains
    rc = sparse_group_cases(rng, 120 if quick else 2500)
    compiled_and_judge(rep, "C02", rc, "random", "realrun", want, keep=["groups"])
    # declaration sequences with repeated / gapped slots: the generator must refuse them (C11); should it ever accept one, wgpu sees the layout
    rb = run_mc("MC_BindGroupData.tla", "MC_BindGroupData.cfg", workers=8, consts={"MaxLen": "3" if quick else "4", "MaxGroup": "1", "MaxBinding": "2"})
    bad = [e for e in rb.cases if e["expect"] != "ok"]
    rng.shuffle(bad)
    bcases = [{"id": "bad-%04d" % i, "family": "refused-sequences", "S": F.bgd_shader(e["decls"]), "opts": F.opts()} for i, e in enumerate(bad[:(150 if quick else 2000)])]
    compiled_and_judge(rep, "C02", bcases, "refused", "realrun", want, keep=["groups"])
    # visibility as wgpu sees it: the context slice of the stage analysis (access / call at every nesting) through real pipeline creation
    r2 = run_mc("MC_StagesCtx.tla", "MC_StagesCtx.cfg", workers=8, consts={"DA": "1", "DC": "1" if quick else "2", "Memo": "TRUE" if MEMO else "FALSE"})
    rep.add_mc("MC_StagesCtx", r2, "exported shaders validated by real pipeline creation")
    ctx = cases_from_S(r2.cases[::(2 if quick else 1)], "ctx", "stages-ctx", vary_validate=False)
    for i, (ra, rb_) in enumerate([(False, False), (True, False), (False, True), (True, True)]):
        ctx.append({"id": "ifsplit-%d" % i, "family": "calls-in-both-arms", "S": F.if_split_shader(ra, rb_), "opts": F.opts()})
    rtS = {"structs": [{"name": "Growable", "members": [{"name": "bounds", "ty": F.VEC4}, {"name": "count", "ty": {"k": "scalar", "s": "u32"}}, {"name": "items", "ty": {"k": "rtarray", "e": {"k": "scalar", "s": "u32"}}}]},
                       {"name": "Odd", "members": [{"name": "a", "ty": {"k": "vec", "n": 3, "s": "f32"}}, {"name": "items", "ty": {"k": "rtarray", "e": {"k": "vec", "n": 2, "s": "f32"}}}]}],
           "globals": [{"name": "growable", "space": "storage_rw", "group": "0", "binding": "0", "ty": {"k": "struct", "name": "Growable"}}, {"name": "odd", "space": "storage_r", "group": "0", "binding": "1", "ty": {"k": "struct", "name": "Odd"}}],
           "consts": [], "overrides": [], "functions": [],
           "entries": [{"name": "cs_main", "stage": "compute", "params": [], "body": [{"k": "access", "g": "growable", "how": "load"}, {"k": "access", "g": "odd", "how": "array_length"}], "wg": ["1"]}]}
    ctx.append({"id": "rt-header", "family": "runtime-array-with-header", "S": rtS, "opts": F.opts(enc=True, mv="glam")})
    for i, src_ in enumerate(["@group(0) @binding(0) var texs: binding_array<texture_2d<f32>, 4>;\n@group(0) @binding(1) var<storage, read_write> o: vec4<f32>;\n@compute @workgroup_size(1) fn cs_main() { o = textureLoad(texs[1], vec2<i32>(0), 0); }\n",
                              "@group(0) @binding(0) var smps: binding_array<sampler, 2>;\n@group(0) @binding(1) var t: texture_2d<f32>;\n@group(0) @binding(2) var<storage, read_write> o: vec4<f32>;\n@compute @workgroup_size(1) fn cs_main() { o = textureSampleLevel(t, smps[0], vec2<f32>(0.5), 0.0); }\n",
                              "@group(0) @binding(0) var<storage, read> bufs: binding_array<array<u32, 4>, 2>;\n@group(0) @binding(1) var<storage, read_write> o: u32;\n@compute @workgroup_size(1) fn cs_main() { o = bufs[1][0]; }\n",
                              "@group(0) @binding(0) var<storage, read_write> counter: atomic<u32>;\n@compute @workgroup_size(1) fn cs_main() { atomicAdd(&counter, 1u); }\n"]):
        ctx.append({"id": "raw-unsupported-%d" % i, "family": "resource-kinds-outside-the-feature-set", "wgsl": src_, "opts": F.opts()})
    ctx.append({"id": "twin-groups", "family": "groups-with-equal-resources", "S": F.twin_groups_shader(), "opts": F.opts()})
    # buffers above 64 KiB (no limit of any device may leak into the layout)
    for i, (sp, n_) in enumerate([("uniform", 4097), ("uniform", 4096), ("storage_r", 4097), ("storage_rw", 70000)]):
        B = F.bgd_shader([{"g": 0, "b": 0}, {"g": 0, "b": 1}], use=True, tys=[{"k": "array", "n": n_, "e": F.VEC4}, F.VEC4])
        B["globals"][0]["space"] = sp
        B["entries"] = [{"name": "cs_main", "stage": "compute", "params": [], "body": B["entries"][0]["body"], "wg": ["1"]}]
        ctx.append({"id": "big-%d" % i, "family": "large-buffers", "S": B, "opts": F.opts()})
    # a buffer that only the innermost helper of a long call chain touches (procedure calls and value-returning calls)
    ctx += [{"id": "deep-%d-%s" % (d, "ret" if ret else "void"), "family": "deep-call-chain", "S": F.chain(d, ret), "opts": F.opts()} for d in (31, 33, 40, 70, 100) for ret in (False, True)]
    compiled_and_judge(rep, "C02", ctx, "ctx", "realrun", want, keep=["groups"])
    rep.assumptions.append("device: wgpu-core 24.0.5 on wgpu-hal's no-op backend with every feature enabled (render pipelines: without TEXTURE_ADAPTER_SPECIFIC_FORMAT_FEATURES), limits max_bind_groups=8; float textures filterable / samplers filtering as documented")
    return finish(rep)


def check_C05(tier, seed):
    import compiled
    quick = tier == "quick"
    # (1) the numbers carried by the assertions, on the whole table (static projection, all representations)
    rep = check_static_structs("C05", tier, seed)
    # unbounded lemmas behind Layout!RoundUp (least aligned offset, no overlap), proved with TLAPS
    rep.mc.append(run_tlapm("LayoutLemmas.tla"))
    rng = random.Random(seed + 1)
    # (2) soundness: the module with assertions is compiled (accept / reject per struct), its twin without any
    #     derive is compiled and its real Rust layout measured; accepted => twin layout = WGSL layout
    exported = []
    for mode in ("pairs", "triples", "arrays"):
        r = run_mc("MC_Layout.tla", "MC_Layout.cfg", workers=8, consts={"Mode": '"%s"' % mode, "Export": "TRUE"}, tag="layoutS_" + mode)
        exported += r.cases
    rng.shuffle(exported)
    exported = exported[:(70 if quick else 2169)]
    cases = []
    for i, e in enumerate(exported):
        for mv in ("rust", "glam", "nalgebra"):
            cases.append({"id": "snd-%05d-%s-twin" % (i, mv), "family": "layout-twin", "S": e["S"], "opts": F.opts(mv=mv)})
            cases.append({"id": "snd-%05d-%s" % (i, mv), "family": "layout-soundness", "S": e["S"], "opts": F.opts(mv=mv, bmh=True, bmv=(i % 2 == 0))})
    for i in range(40 if quick else 800):
        S, has_rt = F.role_shader(rng, big_arrays=False)
        if has_rt:
            continue
        mv = ("rust", "glam", "nalgebra")[i % 3]
        cases.append({"id": "sndr-%05d-twin" % i, "family": "layout-twin", "S": S, "opts": F.opts(mv=mv)})
        cases.append({"id": "sndr-%05d" % i, "family": "layout-soundness-roles", "S": S, "opts": F.opts(mv=mv, bmh=True, bmv=(i % 2 == 0))})
    by_id = {c["id"]: c for c in cases}
    trace = compiled.run_compiled(cases, "C05_sound", "shim", {"layout"}, keep=["structs"], batch_size=240)
    evs = [json.loads(l) for l in open(trace)]
    obs = {e["id"]: e for e in evs if e["ev"] == "obs"}
    n_twin = 0
    for cid, o in obs.items():
        if cid.endswith("-twin"):
            continue
        t = obs.get(cid + "-twin")
        if t is not None and t.get("compile", {}).get("outcome") == "ok":
            o["twin"] = [e for e in t.get("rt", []) if e.get("ev") == "rt.layout"]
            n_twin += 1
    tp = trace + ".twin"
    with open(tp, "w") as f:
        for e in evs:
            if not str(e.get("id", "")).endswith("-twin"):
                f.write(json.dumps(e) + "\n")
    tr = validate_trace(tp, "C05S", chunk_lines=3000)
    rep.evaluations += len(cases)
    for c in cases:
        rep.distinct.add(src_key(c))
    handle_verdicts(rep, tr, by_id, "soundness")
    acc = sum(1 for cid, o in obs.items() if not cid.endswith("-twin") and o.get("compile", {}).get("outcome") == "ok")
    rejd = sum(1 for cid, o in obs.items() if not cid.endswith("-twin") and o.get("compile", {}).get("outcome") == "reject")
    rep.notes.append("soundness: %d modules with assertions compiled (%d accepted by rustc, %d rejected), %d twins measured" % (acc + rejd, acc, rejd, n_twin))
    return finish(rep)


def check_C06(tier, seed):
    return finish(check_static_structs("C06", tier, seed))


def compiled_and_judge(rep, prop, cases, family, flavor, want, keep=None, enforce=None):
    import compiled
    if not cases:
        return
    by_id = {c["id"]: c for c in cases}
    for c in cases:
        rep.how.setdefault(c.get("family", ""), {"mode": "compiled", "flavor": flavor, "want": sorted(want), "keep": keep, "enforce": enforce or prop})
    trace = compiled.run_compiled(cases, "%s_%s" % (prop, family), flavor, want, keep=keep)
    tr = validate_trace(trace, enforce or prop, chunk_lines=3000)
    rep.evaluations += len(cases)
    for c in cases:
        rep.distinct.add(src_key(c))
    handle_verdicts(rep, tr, by_id, family)
    for c in cases[:2]:
        rep.sample({"family": family, "case": c})


def many_group_cases(rng, n):
    """up to 8 bind groups (the wgpu maximum), declared in shuffled / interleaved order with sparse indices"""
    cases = []
    kinds = [F.VEC4, {"k": "tex", "class": "sampled", "dim": "2d", "kind": "f32"}, {"k": "sampler", "cmp": False}, {"k": "scalar", "s": "u32"},
             {"k": "tex", "class": "storage", "dim": "2d", "format": "rgba8unorm", "access": "write"}]
    for i in range(n):
        ng = rng.randint(4, 8)
        decls = []
        for g in range(ng):
            for b in rng.sample([0, 1, 2, 5, 9, 31, 100], rng.randint(1, 3)):
                decls.append((g, b))
        rng.shuffle(decls)
        gl = []
        for j, (g, b) in enumerate(decls):
            ty = kinds[(i + j) % len(kinds)]
            sp = "handle" if ty["k"] in ("tex", "sampler") else rng.choice(["uniform", "storage_r", "storage_rw"])
            gl.append({"name": "v%d_%d" % (g, b), "space": sp, "group": str(g), "binding": str(b), "ty": ty})
        body = [{"k": "access", "g": x["name"], "how": "tex_dims" if x["ty"]["k"] == "tex" and x["ty"]["class"] == "sampled" else "tex_store" if x["ty"]["k"] == "tex" else "load"}
                for x in gl if x["ty"]["k"] != "sampler" and rng.random() < 0.7]
        S = {"structs": [], "globals": gl, "consts": [], "overrides": [], "functions": [], "entries": [{"name": "cs_main", "stage": "compute", "params": [], "body": body, "wg": ["1"]}]}
        cases.append({"id": "mg-%04d" % i, "family": "bind-groups-many", "S": S, "opts": F.opts()})
    return cases


def sparse_group_cases(rng, n):
    """dense groups, sparse / unordered / interleaved bindings, all resource kinds (C04)"""
    cases = many_group_cases(rng, max(10, n // 6))
    for i in range(n):
        S = F.rand_shader(rng, n_fn=(0, 2), n_entry=(1, 3), n_res=(2, 9), depth=1, push=0.2, names=(i % 4 == 0))
        if i % 5 == 1:
            F.alias_resources(S)
        cases.append({"id": "bg-%05d" % i, "family": "bind-groups-random", "S": S, "opts": F.opts(enc=True, mv="glam")})
    return cases


def check_C04(tier, seed):
    rep = Report("C04", tier, seed)
    rng = random.Random(seed)
    quick = tier == "quick"
    r = run_mc("MC_BindGroupData.tla", "MC_BindGroupData.cfg", workers=8, consts={"MaxLen": "4", "MaxGroup": "2", "MaxBinding": "2"})
    rep.add_mc("MC_BindGroupData", r, "declaration sequences (interleaved groups, unordered bindings) exported; the Ok ones are executed on the recording device")
    okseq = [e for e in r.cases if e["expect"] == "ok" and len(e["decls"]) >= 2]
    rng.shuffle(okseq)
    kinds = [F.VEC4, {"k": "tex", "class": "sampled", "dim": "2d", "kind": "f32"}, {"k": "sampler", "cmp": False}, {"k": "scalar", "s": "f32"}]
    cases = []
    for i, e in enumerate(okseq[:(150 if quick else 3000)]):
        # sparse indices: stretch binding b to a larger, order-preserving or order-reversing index
        stretch = [lambda b: b, lambda b: 3 * b + 1, lambda b: 9 - 4 * b, lambda b: 16777216 + b, lambda b: 4294967295 - b, lambda b: b if b == 0 else 16777216 * b + b, lambda b: 65536 * b + (1 - b % 2)][i % 7]
        decls = [{"g": d["g"], "b": stretch(d["b"])} for d in e["decls"]]
        S = F.bgd_shader(decls, use=True, tys=[kinds[(i + j) % len(kinds)] for j in range(len(decls))])
        for j, g in enumerate(S["globals"]):
            g["space"] = "handle" if g["ty"]["k"] in ("tex", "sampler") else "uniform"
        S["entries"][0]["body"] = [{"k": "access", "g": g["name"], "how": "tex_dims" if g["ty"]["k"] == "tex" else "load"} for g in S["globals"] if g["ty"]["k"] != "sampler"]
        cases.append({"id": "seq-%05d" % i, "family": "bind-groups-exported", "S": S, "opts": F.opts()})
    # pairs of sources that are permutations of each other (equal length, equal byte sum): binding numbers, group numbers or names exchanged
    for i, (da, db) in enumerate([([(0, 0), (0, 1)], [(0, 1), (0, 0)]), ([(0, 2), (1, 0), (1, 1)], [(1, 2), (0, 0), (1, 1)]), ([(1, 0), (0, 0)], [(0, 0), (1, 0)]), ([(0, 3), (0, 1), (0, 2)], [(0, 1), (0, 2), (0, 3)])]):
        for j, d_ in enumerate((da, db, da)):
            cases.append({"id": "anagram-%d-%d" % (i, j), "family": "bind-groups-anagram-sources", "S": F.bgd_shader([{"g": g, "b": b} for g, b in d_], use=True), "opts": F.opts()})
    # more groups than decimal digits (generated item names BindGroup10, BindGroup11 sort before BindGroup2 as text), declared in shuffled order
    for i, ng in enumerate((11, 12, 13)):
        decls = [(g, b) for g in range(ng) for b in ((0,) if g % 3 else (1, 0))]
        rng.shuffle(decls)
        cases.append({"id": "many-%d" % ng, "family": "bind-groups-more-than-ten", "S": F.bgd_shader([{"g": g, "b": b} for g, b in decls], use=True), "opts": F.opts()})
    # the same declaration sequences with the validator on and only some variables used (the validator knows which)
    for i, e in enumerate(okseq[:(40 if quick else 400)]):
        S = F.bgd_shader(e["decls"], use=True)
        S["entries"][0]["body"] = S["entries"][0]["body"][::2]
        cases.append({"id": "seqv-%05d" % i, "family": "bind-groups-exported-validated-partly-used", "S": S, "opts": F.opts(validate="all")})
    badseq = [e for e in r.cases if e["expect"] != "ok" and len(e["decls"]) >= 2]
    rng.shuffle(badseq)
    for i, e in enumerate(badseq[:(40 if quick else 600)]):
        B = F.bgd_shader(e["decls"], use=True, tys=[[F.VEC4, {"k": "array", "n": 4, "e": {"k": "scalar", "s": "u32"}}][(i + j) % 2] for j in range(len(e["decls"]))])
        for g_ in B["globals"]:
            g_["space"] = "storage_r" if g_["ty"]["k"] == "array" else "uniform"
        acc = B["entries"][0]["body"]
        B["entries"] = [{"name": "fs_main", "stage": "fragment", "params": [], "body": acc[0::2], "wg": []}, {"name": "cs_main", "stage": "compute", "params": [], "body": acc[1::2], "wg": ["1"]}]
        cases.append({"id": "seqbad-%05d" % i, "family": "bind-groups-refused-sequences-disjoint-stages", "S": B, "opts": F.opts(validate=("none", "all")[i % 2])})
    want = {"bindgroups"}
    compiled_and_judge(rep, "C04", cases, "exported", "shim", want, keep=["groups"])
    # operation sequences explored by TLC over the API state machine, replayed on the compiled module
    rr = run_mc("MC_Runtime.tla", "MC_Runtime.cfg", workers=4, consts={"MaxOps": "4" if quick else "5"})
    rep.add_mc("MC_Runtime(2 groups x 3 pass kinds, sequences of %d operations)" % (4 if quick else 5), rr, "a group is only ever bound in its own slot; every sequence exported")
    rep.add_selftest("MC_Runtime_mut(set binds at index + 1)", run_mc("MC_Runtime.tla", "MC_Runtime_mut.cfg", workers=2, expect_violation=True))
    seqs = rr.cases[:]
    rng.shuffle(seqs)
    S2 = F.bgd_shader([{"g": 1, "b": 3}, {"g": 0, "b": 5}, {"g": 1, "b": 0}, {"g": 0, "b": 1}], use=True,
                      tys=[F.VEC4, {"k": "tex", "class": "sampled", "dim": "2d", "kind": "f32"}, {"k": "sampler", "cmp": False}, {"k": "scalar", "s": "f32"}])
    for g in S2["globals"]:
        g["space"] = "handle" if g["ty"]["k"] in ("tex", "sampler") else "uniform"
    S2["entries"][0]["body"] = [{"k": "access", "g": g["name"], "how": "tex_dims" if g["ty"]["k"] == "tex" else "load"} for g in S2["globals"] if g["ty"]["k"] != "sampler"]
    ocases = [{"id": "ops-%04d" % i, "family": "bind-groups-op-sequences", "S": S2, "opts": F.opts(), "ops": e["ops"]} for i, e in enumerate(seqs[:(120 if quick else 3000)])]
    # a formatter that hands back the program with two binding fields exchanged must not be believed
    fmt_env()
    S3 = F.bgd_shader([{"g": 0, "b": 4}, {"g": 0, "b": 1}, {"g": 1, "b": 0}, {"g": 1, "b": 2}], use=True, names=["first", "second", "third", "fourth"])
    swap_ops = [[{"op": "from_bindings", "arg": "0"}, {"op": "from_bindings", "arg": "1"}, {"op": "set_bind_groups", "arg": "compute"}, {"op": "create_pipeline_layout", "arg": ""}],
                [{"op": "get_layout", "arg": "1"}, {"op": "from_bindings", "arg": "1"}, {"op": "from_bindings", "arg": "0"}, {"op": "set", "arg": "0@render"}]]
    ocases += [{"id": "ops-fmtswap-%d" % i, "family": "bind-groups-op-sequences-formatter-swaps-fields", "S": S3, "opts": F.opts(rustfmt=True), "ops": ops_, "fmt_plan": "near_field_swap"}
               for i, ops_ in enumerate(swap_ops)]
    ocases += [{"id": "ops-fmtdrop-%d" % i, "family": "bind-groups-op-sequences-formatter-drops-tail", "S": S3, "opts": F.opts(rustfmt=True), "ops": ops_, "fmt_plan": "near_drop_last"} for i, ops_ in enumerate(swap_ops[:1])]
    ocases += [{"id": "ops-fmtok-%d" % i, "family": "bind-groups-op-sequences-formatter-on", "S": S3, "opts": F.opts(rustfmt=True), "ops": ops_, "fmt_plan": "ok"} for i, ops_ in enumerate(swap_ops)]
    # the same with a program of more than 64 KiB, 128 KiB and 1 MiB (the embedded source carries a long comment): nothing about the SIZE of
    # the text exempts the formatter's answer from the comparison
    for kib in (70, 140, 1100):
        S3L = dict(S3, comment=(" padding line %d\n" % kib) * (kib * 1024 // 17 + 1))
        ocases += [{"id": "ops-fmtswap-%dk-%d" % (kib, i), "family": "bind-groups-op-sequences-formatter-swaps-fields", "S": S3L, "opts": F.opts(rustfmt=True), "ops": ops_, "fmt_plan": plan}
                   for i, (ops_, plan) in enumerate(zip(swap_ops, ("near_field_swap", "near_drop_last")))]
    compiled_and_judge(rep, "C04", ocases, "ops", "shim", want, keep=["groups"])
    compiled_and_judge(rep, "C04", sparse_group_cases(rng, 150 if quick else 3000), "random", "shim", want, keep=["groups"])
    return finish(rep)


def entry_cases(rep, rng, quick):
    r = run_mc("MC_Entries.tla", "MC_Entries.cfg", workers=4)
    rep.add_mc("MC_Entries", r, "entry-point shapes: fragment results over all location subsets, vertex parameter sequences, workgroup sizes")
    cases = []
    for i, e in enumerate(r.cases):
        cases.append({"id": "ent-%04d" % i, "family": "entries-exported", "S": e["S"], "opts": F.opts(mv=("rust", "glam")[i % 2], bmv=(i % 3 == 0))})
        if i % 4 == 1:
            cases[-1]["S"] = dict(e["S"], decor=["interpolate_vin"])
    cases.append({"id": "ent-case-clash", "family": "entries-exported", "S": {"structs": [], "globals": [], "consts": [], "overrides": [], "functions": [],
                  "entries": [{"name": "main", "stage": "fragment", "params": [], "body": [], "wg": []}, {"name": "MAIN", "stage": "compute", "params": [], "body": [], "wg": ["1"]}]}, "opts": F.opts()})
    v4 = {"k": "vec", "n": 4, "s": "f32"}
    f1 = {"k": "scalar", "s": "f32"}
    for i, results in enumerate([[{"k": "loc", "n": 0, "ty": v4}, {"k": "loc", "n": 2, "ty": v4}, {"k": "loc", "n": 1, "ty": v4}], [{"k": "loc", "n": 3, "ty": v4}, {"k": "loc", "n": 0, "ty": v4}],
                                 [{"k": "builtin", "b": "frag_depth"}, {"k": "loc", "n": 0, "ty": f1}, {"k": "loc", "n": 4, "ty": f1}], [{"k": "loc", "n": 1, "ty": f1}, {"k": "builtin", "b": "frag_depth"}, None],
                                 [{"k": "loc", "n": 8, "ty": v4}, {"k": "loc", "n": 7, "ty": v4}], [{"k": "loc", "n": 11, "ty": f1}, {"k": "loc", "n": 15, "ty": v4}, {"k": "loc", "n": 31, "ty": v4}]]):
        ents = []
        for j, r_ in enumerate(results):
            e = {"name": "fs_%d" % j, "stage": "fragment", "params": [], "body": [], "wg": []}
            if r_ is not None:
                e["result"] = r_
            ents.append(e)
        cases.append({"id": "ent-frag-same-type-%d" % i, "family": "entries-fragment-results-of-one-type", "S": {"structs": [], "globals": [], "consts": [], "overrides": [], "functions": [], "entries": ents}, "opts": F.opts()})
    cases.append({"id": "ent-wg-override", "family": "entries-workgroup-size-override", "opts": F.opts(),
                  "S": {"structs": [], "globals": [], "consts": [], "overrides": [{"name": "width", "ty": "u32", "default": "16u"}], "functions": [],
                        "entries": [{"name": "cs_a", "stage": "compute", "params": [], "body": [], "wg": ["width", "4"]}, {"name": "cs_b", "stage": "compute", "params": [], "body": [], "wg": ["2", "width", "width"]},
                                     {"name": "vs_plain", "stage": "vertex", "params": [{"k": "builtin", "name": "i", "b": "vertex_index"}], "result": {"k": "builtin", "b": "position"}, "body": [], "wg": []}]}})
    # the same struct taken twice by one vertex entry (the validator refuses the repeated locations; validation is off by default)
    cases.append({"id": "ent-same-struct-twice", "family": "entries-same-struct-twice", "opts": F.opts(),
                  "S": {"structs": [{"name": "VIn", "members": [{"name": "a", "ty": F.VEC4, "io": {"k": "loc", "n": 0}}]}, {"name": "Other", "members": [{"name": "b", "ty": F.VEC4, "io": {"k": "loc", "n": 1}}]}],
                        "globals": [], "consts": [], "overrides": [], "functions": [],
                        "entries": [{"name": "vs_main", "stage": "vertex", "params": [{"k": "struct", "name": "p", "ty": "VIn"}, {"k": "struct", "name": "q", "ty": "Other"}, {"k": "struct", "name": "r", "ty": "VIn"}],
                                     "result": {"k": "builtin", "b": "position"}, "body": [], "wg": []}]}})
    # two vertex input structs whose snake-case names coincide (the clean generator emits a helper that does not compile: finding F13)
    for i, (a, b) in enumerate([("VertexInput", "vertex_input"), ("Particle", "particle")]):
        cases.append({"id": "ent-snake-%d" % i, "family": "entries-same-snake-name", "opts": F.opts(),
                      "S": {"structs": [{"name": a, "members": [{"name": "a", "ty": F.VEC4, "io": {"k": "loc", "n": 0}}]}, {"name": b, "members": [{"name": "b", "ty": F.VEC4, "io": {"k": "loc", "n": 1}}]}],
                            "globals": [], "consts": [], "overrides": [], "functions": [],
                            "entries": [{"name": "vs_main", "stage": "vertex", "params": [{"k": "struct", "name": "p", "ty": a}, {"k": "struct", "name": "q", "ty": b}], "result": {"k": "builtin", "b": "position"}, "body": [], "wg": []}]}})
    rcases = []
    for i in range(120 if quick else 2500):
        S, has_rt = F.role_shader(rng, big_arrays=False, entry_names=True)
        if rng.random() < 0.4:
            S["overrides"] = S["overrides"] + [{"name": "scale", "ty": "f32", "default": "1.0"}, {"name": "count", "ty": "u32", "id": 3}]
        rcases.append({"id": "role-%05d" % i, "family": "entries-random", "S": S, "opts": F.opts(enc=(i % 3 != 2), mv=("rust", "glam", "nalgebra")[i % 3], bmv=(i % 2 == 0))})
    return cases, rcases


def check_C14(tier, seed):
    rep = Report("C14", tier, seed)
    rng = random.Random(seed)
    cases, rcases = entry_cases(rep, rng, tier == "quick")
    compiled_and_judge(rep, "C14", cases, "exported", "shim", {"entries"}, keep=["mods"])
    compiled_and_judge(rep, "C14", rcases, "random", "shim", {"entries"}, keep=["mods"])
    return finish(rep)


def check_C07(tier, seed):
    rep = Report("C07", tier, seed)
    rng = random.Random(seed)
    cases, rcases = entry_cases(rep, rng, tier == "quick")
    cases = [c for c in cases if any(e["stage"] == "vertex" for e in c["S"]["entries"])]
    # every vertex case under the three representations and the derive switches that change field alignment
    more = []
    for c in cases:
        for j, o in enumerate([F.opts(mv="glam", bmv=True), F.opts(mv="nalgebra"), F.opts(mv="glam", enc=True, serde=True)]):
            d = dict(c); d["id"] = c["id"] + "-o%d" % j; d["opts"] = o
            more.append(d)
    compiled_and_judge(rep, "C07", cases + more, "exported", "shim", {"entries", "layout"}, keep=["mods"])
    compiled_and_judge(rep, "C07", rcases, "random", "shim", {"entries", "layout"}, keep=["mods"])
    # wgpu's own vertex-buffer and vertex-input validation: real create_render_pipeline on the no-op device
    compiled_and_judge(rep, "C07", cases + more[::3], "wgpu", "realrun", {"wgpu"}, keep=["mods"], enforce="C07W")
    return finish(rep)


def check_C12(tier, seed):
    rep = Report("C12", tier, seed)
    rng = random.Random(seed)
    quick = tier == "quick"
    r = run_mc("MC_Consts.tla", "MC_Consts.cfg", workers=4)
    rep.add_mc("MC_Consts", r, "override sets x assignments: map construction; key rule; required/optional")
    rep.add_selftest("MC_Consts_mut(key by name for @id overrides)", run_mc("MC_Consts.tla", "MC_Consts_mut.cfg", workers=2, expect_violation=True))
    shaders = F.override_shaders(rng, 120 if quick else 1500)
    cases = [{"id": "ovr-%05d" % i, "family": "overrides", "S": S, "opts": F.opts(mv=("rust", "glam")[i % 2])} for i, S in enumerate(shaders)]
    compiled_and_judge(rep, "C12", cases, "overrides", "shim", {"overrides", "entries"}, keep=["overrides"])
    return finish(rep)


def check_C15(tier, seed):
    rep = Report("C15", tier, seed)
    rng = random.Random(seed)
    quick = tier == "quick"
    shaders = F.const_shaders(rng, 40 if quick else 400)
    cases = [{"id": "const-%04d" % i, "family": "constants", "S": S, "opts": F.opts(validate=("none", "all")[i % 2])} for i, S in enumerate(shaders)]
    rep.level = "model_checking"
    r = run_mc("MC_Consts.tla", "MC_Consts.cfg", workers=4)
    rep.add_mc("MC_Consts", r, "exported set = named scalar constants; type table")
    compiled_and_judge(rep, "C15", cases, "constants", "shim", {"consts"}, keep=["consts"])
    return finish(rep)


def check_C16(tier, seed):
    rep = Report("C16", tier, seed)
    rng = random.Random(seed)
    quick = tier == "quick"
    r = run_mc("MC_Source.tla", "MC_Source.cfg", workers=8, consts={"MaxLen": "3" if quick else "4"})
    rep.add_mc("MC_Source", r, "Unescape(Escape(s)) = s for every class string; all strings exported")
    rep.add_selftest("MC_Source_mut(escape forgets the quote)", run_mc("MC_Source.tla", "MC_Source_mut.cfg", workers=2, expect_violation=True))
    rep.exhaustive = True
    exported = r.cases if quick else r.cases[::4]
    cases = []
    for i, e in enumerate(exported):
        text = F.class_string(e["classes"])
        cases.append({"id": "src-%05d" % i, "family": "source-classes", "S": F.source_shader(text), "opts": F.opts(rustfmt=False)})
        if i % 7 == 0:
            # the include variant of the same source, with an include path drawn from the same universe
            path = "shaders/" + F.class_string(e["classes"]).replace("\x00", "_").replace("/", "_") + ".wgsl"
            cases.append({"id": "src-%05d-inc" % i, "family": "source-include", "S": F.source_shader(text), "opts": F.opts(include=path)})
    # formatter on, and whole realistic shaders with CRLF line endings / BOM-free unicode
    seeds = seed_sources(rng, 6, 6)
    for i, (name, text) in enumerate(seeds):
        for j, v in enumerate([text, text.replace("\n", "\r\n"), text.replace("\n", "\r\n", 3), "// caf\u00e9 \U0001F600 \"q\" \\n {x}\n" + text,
                               "\n\n  \t" + text, text + "  \n\n\t ", " " + text.rstrip("\n"), text.replace("\n", "\n\n") + "\x0c\x0b"]):
            cases.append({"id": "src-real-%03d-%d" % (i, j), "family": "source-real", "wgsl": v, "opts": F.opts(rustfmt=(j % 2 == 1))})
            cases.append({"id": "src-real-%03d-%d-inc" % (i, j), "family": "source-real-include", "wgsl": v, "opts": F.opts(include="dir with space/sh\\ader\"%d.wgsl" % j)})
    # long sources with dense multi-byte text (any chunked / buffered handling of the literal), include paths with outer whitespace
    for i, (a, b) in enumerate([("\u00e9", 5000), ("\U0001F600x", 2500), ("a\u00e9\u6570\U0001F600", 3000), ("\u6570", 1366), ("xy\u00e9", 1365)]):
        text = (a * b)[: b * len(a)]
        cases.append({"id": "src-long-%d" % i, "family": "source-long", "S": F.source_shader(text), "opts": F.opts(rustfmt=(i % 2 == 1))})
    for i, pth in enumerate([" shader.wgsl", "shader.wgsl ", "shader.wgsl\n", "\tshader.wgsl", "\u3000shader.wgsl", "\u00a0x.wgsl\u00a0", " ", "./a/../shader.wgsl", "shader.wgsl\r\n", "", "0", "None",
                              "\\\\?\\C:\\shaders\\a.wgsl", "\\\\?\\UNC\\srv\\a.wgsl", "\\\\.\\a.wgsl", "C:\\a.wgsl", "file:///a.wgsl", "~/a.wgsl", "$OUT_DIR/a.wgsl", "%TEMP%\\a.wgsl",
                              "shader.wgsl", "a.wgsl", "shaders/main.wgsl", "templates/${variant}/shader.wgsl", "${OUT_DIR}/shader.wgsl", "${HOME}", "$HOME/x.wgsl", "{}/x.wgsl", "{0}.wgsl", "%s.wgsl", "..", "shaders//shader.wgsl", "a/./b.wgsl", "dir/", "dir/.", "/abs//x.wgsl", "a\\b\\c.wgsl", "..\\up.wgsl", "a/b/../../c.wgsl"]):
        cases.append({"id": "src-path-%d" % i, "family": "source-include-paths", "S": F.source_shader("p"), "opts": F.opts(include=pth)})
        cases.append({"id": "src-path-%d-emb" % i, "family": "source-include-paths", "S": F.source_shader("p"), "opts": F.opts()})
    # absolute include paths: below the working directory of the generating process, equal to it, a sibling of it, with redundant separators
    here = os.path.abspath(planted_cwd())
    for i, pth in enumerate([here + "/shaders/main.wgsl", here + "/a.wgsl", here, here + "/", here + "//shaders///main.wgsl", here + "/./a.wgsl", os.path.dirname(here) + "/a.wgsl",
                              here + "/shaders/../a.wgsl", "/a.wgsl", "/", here.upper() + "/a.wgsl", here + "x/a.wgsl"]):
        cases.append({"id": "src-abspath-%d" % i, "family": "source-include-absolute-paths", "S": F.source_shader("p"), "opts": F.opts(include=pth, rustfmt=(i % 3 == 2))})
    # comment and string lines that LOOK like global directives (`requires ...;`, `enable ...;`, `diagnostic(...)`) in sources that parse
    for i, blk in enumerate(["/*\nrequires bind group 0 to be set; then draw\n*/\n", "/* notes:\n  enable depth clamp ; see docs\n\trequires  features;\n*/\n", "// requires f16;\n//requires x;\n",
                              "/*\ndiagnostic(off, derivative_uniformity);\nrequires readonly_and_readwrite_storage_textures;\n*/\n", "/* requires a; */ /* enable b; */\n"]):
        for j, (name, text) in enumerate(seeds[:2]):
            for fmt in (False, True):
                cases.append({"id": "src-directive-like-%d-%d-%d" % (i, j, fmt), "family": "source-directive-like-comments", "wgsl": blk + text + blk, "opts": F.opts(rustfmt=fmt)})
                cases.append({"id": "src-directive-like-%d-%d-%d-inc" % (i, j, fmt), "family": "source-directive-like-comments", "wgsl": blk + text + blk, "opts": F.opts(rustfmt=fmt, include="shaders/d%d.wgsl" % i)})
    for i, pre in enumerate(["\ufeff", "\ufeff\ufeff", "\u200b", "\u2060", "\ufffe", "\x00", "\ufeff\n"]):
        cases.append({"id": "src-bom-%d" % i, "family": "source-invisible-prefix", "wgsl": pre + "@fragment fn fs_main() {}\n", "opts": F.opts()})
    for i, tail in enumerate(["// trailing comment", "// caf\u00e9", "//", "/* block */ // x", "// a\n// b"]):
        for fmt in (False, True):
            cases.append({"id": "src-tail-%d-%d" % (i, fmt), "family": "source-ends-in-line-comment", "wgsl": "@fragment fn fs_main() {}\n" + tail, "opts": F.opts(rustfmt=fmt)})
    # text that tempts a raw-string spelling of the literal: quotes next to hash signs, runs of hashes, a raw-string look-alike
    for i, text in enumerate(['"#', '"##', 'a "#define" b', 'r#"x"#', '"#"##"###', '#"', '\\"#', '"#\n"##\n', '###"###', 'say "hi" # then "##" and \\ back']):
        for fmt in (False, True):
            cases.append({"id": "src-hash-%02d-%d" % (i, fmt), "family": "source-quotes-and-hashes", "S": F.source_shader(text), "opts": F.opts(rustfmt=fmt)})
    # a formatter whose output differs from the program only by a blank inside the SOURCE literal must not be believed
    fmt_env()
    for i, e in enumerate(exported[::max(1, len(exported) // (12 if quick else 60))]):
        cases.append({"id": "src-fmtws-%03d" % i, "family": "source-formatter-alters-literal", "S": F.source_shader(F.class_string(e["classes"])), "opts": F.opts(rustfmt=True), "fmt_plan": ("near_source_ws", "near_source_ws_raw")[i % 2]})
    for i, (name, text) in enumerate(seeds[:4]):
        cases.append({"id": "src-fmtws-real-%d" % i, "family": "source-formatter-alters-literal", "wgsl": text, "opts": F.opts(rustfmt=True, enc=True), "fmt_plan": ("near_source_ws", "near_source_ws_raw")[i % 2]})
    drive_and_judge(rep, "C16", cases, "static", ["source", "nosource_sha"])
    # a sample goes through rustc: SOURCE evaluated by the compiler and handed to the (recording) device
    sample = [c for c in cases if "include" not in c["opts"]][::(30 if quick else 8)] + [c for c in cases if c["family"] == "source-ends-in-line-comment"]
    compiled_and_judge(rep, "C16", sample, "compiled", "shim", {"source"}, keep=["source", "nosource_sha"])
    return finish(rep)


def check_CONF(tier, seed):
    """full refinement of the operational models by the hook event sequences (not a listed property): DRIFT lines, evidence/_conformance.json"""
    rep = Report("CONF", tier, seed)
    rng = random.Random(seed)
    quick = tier == "quick"
    r1, r2 = stages_mc(rep, quick, memo=MEMO, check_work=True)
    r3 = structs_mc(rep, quick, early=EARLY, check_work=True)
    rb = run_mc("MC_BindGroupData.tla", "MC_BindGroupData.cfg", workers=8, consts={"MaxLen": "4", "MaxGroup": "2", "MaxBinding": "2"})
    cases = cases_from_S(r1.cases[::(3 if quick else 1)], "shape", "stages-shape") + cases_from_S(r2.cases[::(3 if quick else 1)], "ctx", "stages-ctx")
    cases += cases_from_S(r3.cases[::(4 if quick else 1)], "role", "struct-roles", vary_validate=False, o=F.opts(enc=True))
    cases += F.bgd_cases_from_export(rb.cases[::(3 if quick else 1)], quick)
    cases += random_shader_cases(rng, 500 if quick else 10000, "rnd", "random", n_fn=(0, 6), n_entry=(1, 4), depth=2)
    by_id = {c["id"]: c for c in cases}
    trace = run_vdriver(cases, "CONF_all", keep=["mods"], detail=100000)
    tr = validate_trace(trace, "CONF")
    rep.evaluations += len(cases)
    rep.traces += tr.judged
    drift = [v for v in tr.verdicts]
    for v in drift[:20]:
        print("DRIFT case=%s %s" % (v.get("id"), v.get("msg", "")[:300]))
    os.makedirs(EVIDENCE, exist_ok=True)
    json.dump({"engine": "conformance", "tier": tier, "cases": len(cases), "judged": tr.judged, "drift": len(drift), "samples": drift[:5],
               "bound": ["bgd.scan order = declaration-order scan up to the first duplicate", "density test iff no duplicate", "stage.walk sequence = Stages.tla walk log (memo per entry)",
                         "stage.entry order = entry point order", "types.visit count = TypeClosure.tla work", "hook work counters = model counters"]},
              open(os.path.join(EVIDENCE, "_conformance.json"), "w"), indent=1)
    log("[CONF] %d cases judged, %d drift" % (tr.judged, len(drift)))
    # the whole projected output against the functional model Output.tla
    ocases = []
    for i in range(300 if quick else 6000):
        S, has_rt = F.role_shader(rng, entry_names=(i % 3 == 0))
        if i % 2:
            S["overrides"] = [{"name": "scale", "ty": "f32", "default": "1.0"}, {"name": "count", "ty": "u32", "id": 3}]
        if i % 3 == 1:
            S["consts"] = F.const_table(rng)[:12]
        ov = F.all_opts()
        o = dict(ov[i % len(ov)])
        if has_rt:
            o.update(enc=True, bmh=False, bmv=False)
        ocases.append({"id": "out-%05d" % i, "family": "whole-output", "S": S, "opts": o})
    ocases += cases_from_S(r3.cases[::(8 if quick else 1)], "orole", "whole-output-roles", vary_validate=False, o=F.opts(enc=True, mv="glam", bmv=True))
    t2 = run_vdriver(ocases, "CONF_out", keep=["items", "structs", "groups", "fns", "overrides", "compute", "wg_sizes", "vertex_structs", "pipeline_layout", "entry_consts", "source"])
    tr2 = validate_trace(t2, "OUT", chunk_lines=4000)
    d2 = list(tr2.verdicts)
    for v in d2[:20]:
        print("DRIFT case=%s %s" % (v.get("id"), v.get("msg", "")[:700]))
    ev = json.load(open(os.path.join(EVIDENCE, "_conformance.json")))
    ev.update({"whole_output_cases": len(ocases), "whole_output_judged": tr2.judged, "whole_output_drift": len(d2)})
    json.dump(ev, open(os.path.join(EVIDENCE, "_conformance.json"), "w"), indent=1)
    log("[OUT] %d cases judged, %d drift" % (tr2.judged, len(d2)))
    return 2 if (drift or d2) else 0


# Does the specification of the stage walk memoise callees per entry point? (the code does since the C20 fix)
MEMO = True
# Does the type closure return early on a type it has already inserted? (the code does since the C20 fix)
EARLY = True

CHECKS = {"C11": check_C11, "C03": check_C03, "C08": check_C08, "C20": check_C20, "C13": check_C13, "C09": check_C09, "C17": check_C17, "C18": check_C18, "C19": check_C19, "C06": check_C06, "C04": check_C04, "C14": check_C14, "C07": check_C07, "C12": check_C12, "C15": check_C15, "C16": check_C16, "C05": check_C05, "C01": check_C01, "C10": check_C10, "C02": check_C02, "CONF": check_CONF}
