"""Per-property checks. Each function takes (tier, seed) and returns an exit code."""
import json, os, random
from engine import *
import families as F

KEEP_BG = ["groups", "push_stages", "pipeline_layout"]


def drive_and_judge(rep, prop, cases, family, keep, enforce=None, detail=0, extra_env=None, case_timeout=None):
    """real generator on every case -> trace -> TLC judges `prop` on every recorded observation"""
    if not cases:
        return
    by_id = {c["id"]: c for c in cases}
    trace = run_vdriver(cases, "%s_%s" % (prop, family), keep=keep, detail=detail, case_timeout=case_timeout)
    tr = validate_trace(trace, enforce or prop, env=extra_env)
    rep.evaluations += len(cases)
    for c in cases:
        rep.distinct.add(src_key(c))
    handle_verdicts(rep, tr, by_id, family)
    for c in cases[:2]:
        rep.sample({"family": family, "case": c})


def check_C11(tier, seed):
    rep = Report("C11", tier, seed)
    rng = random.Random(seed)
    quick = tier == "quick"
    # (A) the scan/density algorithm as specified satisfies the contract; (B) export every sequence
    consts = {"MaxLen": "4", "MaxGroup": "3", "MaxBinding": "2"} if quick else {"MaxLen": "5", "MaxGroup": "3", "MaxBinding": "3"}
    r = run_mc("MC_BindGroupData.tla", "MC_BindGroupData.cfg", workers=8, consts=consts)
    rep.add_mc("MC_BindGroupData", r, "all declaration sequences, contract + table + first-duplicate invariants")
    # (D) self-test: the mutant that only tests duplicates in the first group must be rejected
    m = run_mc("MC_BindGroupData.tla", "MC_BindGroupData_mut.cfg", workers=4, expect_violation=True)
    rep.add_selftest("MC_BindGroupData_mut(DupScope=first)", m)
    exported = r.cases
    if not quick:
        pass
    elif len(exported) > 12000:
        exported = exported[::2]
    cases = F.bgd_cases_from_export(exported, quick)
    rep.exhaustive = True
    rep.notes.append("bounded-exhaustive: every declaration sequence of length <= %s over groups 0..%s x bindings 0..%s replayed into the real generator"
                     % (consts["MaxLen"], consts["MaxGroup"], consts["MaxBinding"]))
    drive_and_judge(rep, "C11", cases, "export", KEEP_BG)
    # (C) random sequences far beyond the TLC bounds: u32 extremes, long groups, sparse unordered indices
    drive_and_judge(rep, "C11", F.bgd_random(rng, 1500 if quick else 20000), "random", KEEP_BG)
    return finish(rep)


def cases_from_S(exported, prefix, family, vary_validate=True, o=None):
    cases = []
    for i, e in enumerate(exported):
        oo = dict(o or F.opts())
        if vary_validate and i % 3 == 1:
            oo["validate"] = "all"
        cases.append({"id": "%s-%05d" % (prefix, i), "family": family, "S": e["S"], "opts": oo})
    return cases


def random_shader_cases(rng, n, prefix, family, **kw):
    cases = []
    for i in range(n):
        S = F.rand_shader(rng, **kw)
        cases.append({"id": "%s-%05d" % (prefix, i), "family": family, "S": S,
                      "opts": F.opts(validate=rng.choice(["none", "all"]))})
    return cases


STAGE_SELFTESTS = [("MC_StagesCtx.tla", "MC_StagesCtx_mut.cfg", "Handled without LoopContinuing")]


def stages_mc(rep, quick, memo, check_work):
    shape = {"NH": "2", "NE": "1", "NG": "2"} if quick else {"NH": "3", "NE": "1", "NG": "2"}
    shape["Memo"] = "TRUE" if memo else "FALSE"
    shape["CheckWork"] = "TRUE" if check_work else "FALSE"
    r1 = run_mc("MC_Stages.tla", "MC_Stages.cfg", workers=8, consts=shape)
    rep.add_mc("MC_Stages(shape slice %s)" % shape, r1, "all call-graph DAGs; marks = Vis at Finish; marks subset of Vis always")
    ctx = {"DA": "1", "DC": "2"} if quick else {"DA": "2", "DC": "2"}
    ctx["Memo"] = shape["Memo"]
    r2 = run_mc("MC_StagesCtx.tla", "MC_StagesCtx.cfg", workers=8, consts=ctx)
    rep.add_mc("MC_StagesCtx(context slice %s)" % ctx, r2, "access and call at every context path")
    return r1, r2


def check_C03(tier, seed):
    rep = Report("C03", tier, seed)
    rng = random.Random(seed)
    quick = tier == "quick"
    r1, r2 = stages_mc(rep, quick, memo=MEMO, check_work=False)
    for mod, cfg, what in STAGE_SELFTESTS:
        rep.add_selftest("%s (%s)" % (cfg, what), run_mc(mod, cfg, workers=4, expect_violation=True))
    if not quick:
        r3 = run_mc("MC_Stages.tla", "MC_Stages.cfg", workers=12, consts={"NH": "2", "NE": "2", "NG": "2", "Export": "FALSE", "Memo": "TRUE" if MEMO else "FALSE"})
        rep.add_mc("MC_Stages(2 helpers x 2 entries, no export)", r3)
    rep.exhaustive = True
    keep = ["groups", "push_stages"]
    drive_and_judge(rep, "C03", cases_from_S(r1.cases, "shape", "stages-shape"), "shape", keep)
    drive_and_judge(rep, "C03", cases_from_S(r2.cases, "ctx", "stages-ctx"), "ctx", keep)
    drive_and_judge(rep, "C03", random_shader_cases(rng, 1200 if quick else 30000, "rnd", "stages-random", n_fn=(0, 6), n_entry=(1, 5), depth=3, push=0.5), "random", keep)
    return finish(rep)


def structs_mc(rep, quick, early, check_work, export=True):
    c = {"NS": "2", "NGl": "1", "Early": "TRUE" if early else "FALSE", "CheckWork": "TRUE" if check_work else "FALSE",
         "Export": "TRUE" if export else "FALSE"}
    r = run_mc("MC_Structs.tla", "MC_Structs.cfg", workers=8, consts=c)
    rep.add_mc("MC_Structs(%s)" % c, r, "all struct role/reachability patterns; closure model = HostReach")
    return r


def check_C08(tier, seed):
    rep = Report("C08", tier, seed)
    rng = random.Random(seed)
    quick = tier == "quick"
    r = structs_mc(rep, quick, early=EARLY, check_work=False)
    if not quick:
        r3 = run_mc("MC_Structs.tla", "MC_Structs.cfg", workers=12, consts={"NS": "3", "NGl": "1", "Export": "FALSE", "Early": "TRUE" if EARLY else "FALSE"})
        rep.add_mc("MC_Structs(NS=3, no export)", r3)
    exported = r.cases
    rep.exhaustive = not quick
    keep = ["structs"]
    drive_and_judge(rep, "C08", cases_from_S(exported, "role", "struct-roles", vary_validate=False, o=F.opts(enc=True)), "roles", keep)
    drive_and_judge(rep, "C08", random_shader_cases(rng, 800 if quick else 20000, "rnd", "structs-random"), "random", keep)
    return finish(rep)


def check_C20(tier, seed):
    rep = Report("C20", tier, seed)
    quick = tier == "quick"
    # model level: the tight bounds (each function once per entry point, each type expanded once)
    stages_mc(rep, quick, memo=MEMO, check_work=True)
    structs_mc(rep, quick, early=EARLY, check_work=True, export=False)
    # self-tests: without the memo / early return the tight bounds are violated
    rep.add_selftest("MC_Stages(Memo=FALSE, CheckWork)", run_mc("MC_Stages.tla", "MC_Stages.cfg", workers=4, expect_violation=True,
                     consts={"Memo": "FALSE", "CheckWork": "TRUE", "Export": "FALSE"}, tag="st_nomemo"))
    rep.add_selftest("MC_Structs(Early=FALSE, CheckWork)", run_mc("MC_Structs.tla", "MC_Structs.cfg", workers=4, expect_violation=True,
                     consts={"Early": "FALSE", "CheckWork": "TRUE", "Export": "FALSE"}, tag="ms_noearly"))
    keep = ["mods"]
    drive_and_judge(rep, "C20", F.growth_cases(quick), "growth", keep, case_timeout=20)
    rng = random.Random(seed)
    drive_and_judge(rep, "C20", random_shader_cases(rng, 400 if quick else 10000, "rnd", "c20-random", n_fn=(3, 12), n_entry=(1, 6), depth=3), "random", keep, case_timeout=20)
    return finish(rep)


def check_C13(tier, seed):
    rep = Report("C13", tier, seed)
    rng = random.Random(seed)
    quick = tier == "quick"
    stages_mc(rep, quick, memo=MEMO, check_work=False)
    keep = ["push_stages", "pipeline_layout"]
    cases = F.push_cases(rng, 600 if quick else 12000)
    drive_and_judge(rep, "C13", cases, "push", keep)
    return finish(rep)


# Does the specification of the stage walk memoise callees per entry point? (the code does since the C20 fix)
MEMO = True
# Does the type closure return early on a type it has already inserted? (the code does since the C20 fix)
EARLY = True

CHECKS = {"C11": check_C11, "C03": check_C03, "C08": check_C08, "C20": check_C20, "C13": check_C13}
