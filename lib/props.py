"""Per-property checks. Each function takes (tier, seed) and returns an exit code."""
import json, os, random
from engine import *
import families as F

KEEP_BG = ["groups", "push_stages", "pipeline_layout"]


def drive_and_judge(rep, prop, cases, family, keep, enforce=None, detail=0, extra_env=None):
    """real generator on every case -> trace -> TLC judges `prop` on every recorded observation"""
    if not cases:
        return
    by_id = {c["id"]: c for c in cases}
    trace = run_vdriver(cases, "%s_%s" % (prop, family), keep=keep, detail=detail)
    tr = validate_trace(trace, enforce or prop, env=extra_env)
    rep.evaluations += len(cases)
    for c in cases:
        rep.distinct.add(src_key(c))
    handle_verdicts(rep, tr, by_id, family)
    for c in cases[:2]:
        rep.sample({"family": family, "case": c})


def check_C11(tier, seed):
    rep = Report("C11", tier, seed)
    rng = random.Random(seed)
    quick = tier == "quick"
    # (A) the scan/density algorithm as specified satisfies the contract; (B) export every sequence
    consts = {"MaxLen": "4", "MaxGroup": "3", "MaxBinding": "2"} if quick else {"MaxLen": "5", "MaxGroup": "3", "MaxBinding": "3"}
    r = run_mc("MC_BindGroupData.tla", "MC_BindGroupData.cfg", workers=8, consts=consts)
    rep.add_mc("MC_BindGroupData", r, "all declaration sequences, contract + table + first-duplicate invariants")
    # (D) self-test: the mutant that only tests duplicates in the first group must be rejected
    m = run_mc("MC_BindGroupData.tla", "MC_BindGroupData_mut.cfg", workers=4, expect_violation=True)
    rep.add_selftest("MC_BindGroupData_mut(DupScope=first)", m)
    exported = r.cases
    if not quick:
        pass
    elif len(exported) > 12000:
        exported = exported[::2]
    cases = F.bgd_cases_from_export(exported, quick)
    rep.exhaustive = True
    rep.notes.append("bounded-exhaustive: every declaration sequence of length <= %s over groups 0..%s x bindings 0..%s replayed into the real generator"
                     % (consts["MaxLen"], consts["MaxGroup"], consts["MaxBinding"]))
    drive_and_judge(rep, "C11", cases, "export", KEEP_BG)
    # (C) random sequences far beyond the TLC bounds: u32 extremes, long groups, sparse unordered indices
    drive_and_judge(rep, "C11", F.bgd_random(rng, 1500 if quick else 20000), "random", KEEP_BG)
    return finish(rep)


CHECKS = {"C11": check_C11}
