------------------------ MODULE BindGroupData ------------------------
(* Operational model of bindgroup.rs:get_bind_group_data — a declaration-order scan with a   *)
(* per-group duplicate test, then a density test on the set of group numbers — and the      *)
(* declarative contract of property C11.                                                     *)
(* A declaration is <<group, binding>> over naturals (the driver supplies an order- and      *)
(* equality-preserving abstraction for values beyond TLC's integers).                        *)
EXTENDS Integers, Sequences, FiniteSets

(* ---------------- declarative contract (C11) ---------------- *)
GroupsOf(D) == { D[i][1] : i \in DOMAIN D }
Dense(D) == GroupsOf(D) = 0 .. (Cardinality(GroupsOf(D)) - 1)
DupIdx(D) == { j \in DOMAIN D : \E i \in 1 .. (j - 1) : D[i] = D[j] }
HasDup(D) == DupIdx(D) # {}
RepeatedBindings(D) == { D[j][2] : j \in DupIdx(D) }
Min(X) == CHOOSE x \in X : \A y \in X : x <= y
FirstDupBinding(D) == D[Min(DupIdx(D))][2]

(* result values: [kind |-> "ok"], [kind |-> "dup", binding |-> b], [kind |-> "nonconsecutive"] *)
Contract(D, res) ==
  /\ res.kind = "ok" <=> (Dense(D) /\ ~HasDup(D))
  /\ HasDup(D) => (res.kind = "dup" /\ res.binding \in RepeatedBindings(D))
  /\ (~HasDup(D) /\ ~Dense(D)) => res.kind = "nonconsecutive"
  /\ res.kind # "panic"

(* what an Ok result must contain: group -> sequence of bindings, in declaration order *)
InGroup(D, g) == SelectSeq(D, LAMBDA d : d[1] = g)
ExpectedTable(D) == [ g \in GroupsOf(D) |-> [ i \in DOMAIN InGroup(D, g) |-> InGroup(D, g)[i][2] ] ]

(* ---------------- operational model ---------------- *)
(* state: [i, table, res] ; table : group -> Seq binding *)
ScanInit == [ i |-> 1, table |-> << >>, res |-> [kind |-> "pending"] ]

(* DupScope = "group": compare within the declaration's own group (the code);               *)
(* mutants for the self-test: "first" = only the first group, "none" = no test              *)
ScanStep(D, st, DupScope) ==
  LET d == D[st.i]
      g == d[1]
      b == d[2]
      have == IF g \in DOMAIN st.table THEN st.table[g] ELSE << >>
      scope == CASE DupScope = "group" -> have
                 [] DupScope = "first" -> IF st.table = << >> THEN << >> ELSE st.table[Min(DOMAIN st.table)]
                 [] OTHER -> << >>
  IN IF \E k \in DOMAIN scope : scope[k] = b
     THEN [ st EXCEPT !.res = [kind |-> "dup", binding |-> b] ]
     ELSE [ st EXCEPT !.i = st.i + 1,
                      !.table = [ x \in DOMAIN st.table \cup {g} |-> IF x = g THEN Append(have, b) ELSE st.table[x] ] ]

DensityStep(st) ==
  LET n == Cardinality(DOMAIN st.table)
  IN IF DOMAIN st.table = 0 .. (n - 1)
     THEN [ st EXCEPT !.res = [kind |-> "ok"] ]
     ELSE [ st EXCEPT !.res = [kind |-> "nonconsecutive"] ]

RECURSIVE RunScan(_, _, _)
RunScan(D, st, DupScope) ==
  IF st.res.kind # "pending" THEN st
  ELSE IF st.i > Len(D) THEN DensityStep(st)
  ELSE RunScan(D, ScanStep(D, st, DupScope), DupScope)

(* ---- what the typed errors say (Display), alone and rendered against a path; bindings are decimal strings here ---- *)
ErrorText(res) ==
  IF res.kind = "dup" THEN "duplicate binding found with index `" \o res.binding \o "`"
  ELSE "bind groups are non-consecutive or do not start from 0"
ErrorTextWithPath(res, path) == path \o ": " \o ErrorText(res)
=========================================================================
