----------------------------- MODULE Bindings -----------------------------
(* Resource kind -> BindGroupLayoutEntry type as bindgroup.rs:bind_group_layout_entry       *)
(* synthesises it (C02), over the complete WGSL resource vocabulary.                         *)
EXTENDS Shader, TLC

(* WGSL texel format name -> wgpu::TextureFormat variant (all 41 storage formats) *)
FormatName == ("r8unorm" :> "R8Unorm") @@ ("r8snorm" :> "R8Snorm") @@ ("r8uint" :> "R8Uint") @@ ("r8sint" :> "R8Sint") @@ ("r16uint" :> "R16Uint") @@ ("r16sint" :> "R16Sint") @@ ("r16float" :> "R16Float") @@ ("rg8unorm" :> "Rg8Unorm") @@ ("rg8snorm" :> "Rg8Snorm") @@ ("rg8uint" :> "Rg8Uint") @@ ("rg8sint" :> "Rg8Sint") @@ ("r32uint" :> "R32Uint") @@ ("r32sint" :> "R32Sint") @@ ("r32float" :> "R32Float") @@ ("rg16uint" :> "Rg16Uint") @@ ("rg16sint" :> "Rg16Sint") @@ ("rg16float" :> "Rg16Float") @@ ("rgba8unorm" :> "Rgba8Unorm") @@ ("rgba8snorm" :> "Rgba8Snorm") @@ ("rgba8uint" :> "Rgba8Uint") @@ ("rgba8sint" :> "Rgba8Sint") @@ ("bgra8unorm" :> "Bgra8Unorm") @@ ("rgb10a2uint" :> "Rgb10a2Uint") @@ ("rgb10a2unorm" :> "Rgb10a2Unorm") @@ ("rg11b10ufloat" :> "Rg11b10Ufloat") @@ ("r64uint" :> "R64Uint") @@ ("rg32uint" :> "Rg32Uint") @@ ("rg32sint" :> "Rg32Sint") @@ ("rg32float" :> "Rg32Float") @@ ("rgba16uint" :> "Rgba16Uint") @@ ("rgba16sint" :> "Rgba16Sint") @@ ("rgba16float" :> "Rgba16Float") @@ ("rgba32uint" :> "Rgba32Uint") @@ ("rgba32sint" :> "Rgba32Sint") @@ ("rgba32float" :> "Rgba32Float") @@ ("r16unorm" :> "R16Unorm") @@ ("r16snorm" :> "R16Snorm") @@ ("rg16unorm" :> "Rg16Unorm") @@ ("rg16snorm" :> "Rg16Snorm") @@ ("rgba16unorm" :> "Rgba16Unorm") @@ ("rgba16snorm" :> "Rgba16Snorm")
StorageFormats == DOMAIN FormatName

DimName(d) == CASE d = "1d" -> "D1" [] d = "2d" -> "D2" [] d = "2d_array" -> "D2Array" [] d = "3d" -> "D3" [] d = "cube" -> "Cube" [] OTHER -> "CubeArray"
SampleOf(kind) == CASE kind = "f32" -> "float_filterable" [] kind = "i32" -> "sint" [] OTHER -> "uint"
AccessName(a) == CASE a = "read" -> "ReadOnly" [] a = "write" -> "WriteOnly" [] a = "read_write" -> "ReadWrite" [] OTHER -> "Atomic"

(* the layout entry type the generator is specified to emit for global g *)
GenEntryTy(g) ==
  LET t == g.ty IN
  CASE t.k = "sampler" -> [ k |-> "sampler", ty |-> IF t.cmp THEN "Comparison" ELSE "Filtering" ]
    [] t.k = "tex" /\ t.class = "sampled" -> [ k |-> "texture", sample |-> SampleOf(t.kind), dim |-> IF t.multi THEN "D2" ELSE DimName(t.dim), multi |-> t.multi ]
    [] t.k = "tex" /\ t.class = "depth" -> [ k |-> "texture", sample |-> "depth", dim |-> IF t.multi THEN "D2" ELSE DimName(t.dim), multi |-> t.multi ]
    [] t.k = "tex" -> [ k |-> "storage_texture", access |-> AccessName(t.access), format |-> FormatName[t.format], dim |-> DimName(t.dim) ]
    [] g.space = "uniform" -> [ k |-> "buffer", bty |-> "uniform" ]
    [] OTHER -> [ k |-> "buffer", bty |-> "storage", ro |-> (g.space = "storage_r") ]
=============================================================================
