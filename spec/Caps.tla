------------------------------- MODULE Caps -------------------------------
(* The validator's capability gate (C17): which capabilities an abstract shader needs, and which ones a    *)
(* caller's capability set provides. The generator must reject a module that passes the validator with    *)
(* every capability exactly when a needed capability is missing from the set the caller asked for.         *)
(* Transcribed from naga 24's validator (valid/type.rs, valid/interface.rs, valid/mod.rs) for the features  *)
(* the abstract shader can express; naga itself is the second oracle (ORACLE lines on disagreement).       *)
EXTENDS Compile

CapNames == { "PUSH_CONSTANT", "FLOAT64", "SHADER_INT64", "CUBE_ARRAY_TEXTURES", "STORAGE_TEXTURE_16BIT_NORM_FORMATS",
              "DUAL_SOURCE_BLENDING", "SHADER_FLOAT32_ATOMIC", "MULTISAMPLED_SHADING", "PRIMITIVE_INDEX", "SUBGROUP",
              "EARLY_DEPTH_TEST", "SHADER_INT64_ATOMIC_ALL_OPS", "CLIP_DISTANCE", "TEXTURE_ATOMIC", "TEXTURE_INT64_ATOMIC" }

(* every scalar kind mentioned by the types of the module: struct members, variables, entry parameters and results *)
AllTypes(S) ==
  UNION { { S.structs[i].members[j].ty : j \in DOMAIN S.structs[i].members } : i \in DOMAIN S.structs }
  \cup { S.globals[i].ty : i \in { j \in DOMAIN S.globals : S.globals[j].ty.k \notin {"tex", "sampler"} } }
ScalarsUsed(S) == UNION { TyScalars(S, t) : t \in AllTypes(S) }
Norm16 == { "r16unorm", "r16snorm", "rg16unorm", "rg16snorm", "rgba16unorm", "rgba16snorm" }
TexGlobals(S) == { S.globals[i].ty : i \in { j \in DOMAIN S.globals : S.globals[j].ty.k = "tex" } }
RECURSIVE HasF32Atomic(_, _)
HasF32Atomic(S, t) ==
  CASE t.k = "atomic" -> t.s = "f32"
    [] t.k \in {"array", "rtarray"} -> HasF32Atomic(S, t.e)
    [] t.k = "struct" -> \E m \in Range(StructDef(S, t.name).members) : HasF32Atomic(S, m.ty)
    [] OTHER -> FALSE
Blend(S) == \E d \in Range(S.structs) : \E m \in Range(d.members) : Has(m, "io") /\ m.io.k = "loc" /\ Has(m.io, "blend") /\ m.io.blend

RequiredCaps(S) ==
  (IF PushGlobals(S) # << >> THEN {"PUSH_CONSTANT"} ELSE {})
  \cup (IF "f64" \in ScalarsUsed(S) THEN {"FLOAT64"} ELSE {})
  \cup (IF ScalarsUsed(S) \cap {"i64", "u64"} # {} THEN {"SHADER_INT64"} ELSE {})
  \cup (IF \E t \in TexGlobals(S) : t.dim = "cube_array" THEN {"CUBE_ARRAY_TEXTURES"} ELSE {})
  \cup (IF \E t \in TexGlobals(S) : t.class = "storage" /\ t.format \in Norm16 THEN {"STORAGE_TEXTURE_16BIT_NORM_FORMATS"} ELSE {})
  \cup (IF \E t \in TexGlobals(S) : t.class = "storage" /\ t.access = "atomic" THEN {"TEXTURE_ATOMIC"} ELSE {})
  \cup (IF \E t \in TexGlobals(S) : t.class = "storage" /\ t.format = "r64uint" THEN {"TEXTURE_INT64_ATOMIC"} ELSE {})
  \cup (IF Blend(S) THEN {"DUAL_SOURCE_BLENDING"} ELSE {})
  \cup (IF \E i \in DOMAIN S.globals : S.globals[i].ty.k \notin {"tex", "sampler"} /\ HasF32Atomic(S, S.globals[i].ty) THEN {"SHADER_FLOAT32_ATOMIC"} ELSE {})

Provided(v) ==
  IF v = "all" THEN CapNames
  ELSE IF v = "empty" THEN {}
  ELSE IF v = "nof64" THEN CapNames \ {"FLOAT64"}
  ELSE IF \E x \in CapNames : v = "all-" \o x THEN CapNames \ { CHOOSE x \in CapNames : v = "all-" \o x }
  ELSE IF \E x \in CapNames : v = "only-" \o x THEN { CHOOSE x \in CapNames : v = "only-" \o x }
  ELSE CapNames
(* the caller's validator accepts a module that is valid with every capability iff nothing it needs is missing *)
GateAccepts(S, v) == RequiredCaps(S) \subseteq Provided(v)
=============================================================================
