----------------------------- MODULE Compile -----------------------------
(* Catalogue of the ways a generated module can fail to compile (C01), as predicates over   *)
(* the abstract shader and the options. The bytemuck layout assertions and Pod's no-padding *)
(* requirement are the permitted rejections; every other cause is a defect of the generator *)
(* (or a documented limitation recorded as a known finding).                                *)
EXTENDS Structs

Permitted == { "LayoutAssert", "PodPadding" }

RustKeywordsNotReservedByWgsl == { "box", "dyn", "in", "abstract", "become", "final", "macro", "override_", "priv", "try", "typeof", "unsized", "virtual", "yield" }   \* `gen` is an ordinary identifier up to edition 2021 (reserved from 2024 on)
FixedItemNames == { "OverrideConstants", "VertexEntry", "FragmentEntry", "SOURCE", "bind_groups", "compute", "PUSH_CONSTANT_STAGES", "String", "Option", "Vec" }

RECURSIVE TyScalars(_, _), TyMaxArray(_, _)
(* scalar kinds that occur inside a type *)
TyScalars(S, t) ==
  CASE t.k \in {"scalar", "vec", "mat", "atomic"} -> { t.s }
    [] t.k \in {"array", "rtarray"} -> TyScalars(S, t.e)
    [] t.k = "struct" -> UNION { TyScalars(S, StructDef(S, t.name).members[i].ty) : i \in DOMAIN StructDef(S, t.name).members }
    [] OTHER -> {}
(* longest fixed array length directly inside a member type (nested arrays count, nested structs do not) *)
TyMaxArray(S, t) ==
  CASE t.k = "array" -> IF t.n > TyMaxArray(S, t.e) THEN t.n ELSE TyMaxArray(S, t.e)
    [] t.k = "rtarray" -> TyMaxArray(S, t.e)
    [] OTHER -> 0
MemberTys(S, n) == { Fields(S, n)[i].ty : i \in DOMAIN Fields(S, n) }

DerivesPod(S, n, o) == (o.bmh /\ HostShareable(S, n)) \/ (o.bmv /\ ~HostShareable(S, n))
LeafScalars(S, n) == UNION { TyScalars(S, t) : t \in MemberTys(S, n) }

SerdeBigArray(S, o) == o.serde /\ \E n \in Emit(S) : \E t \in MemberTys(S, n) : TyMaxArray(S, t) > 32
NonPodField(S, o) == \E n \in Emit(S) : DerivesPod(S, n, o) /\ "bool" \in LeafScalars(S, n)
EncaseUnsupported(S, o) == o.enc /\ \E n \in Emit(S) : HostShareable(S, n) /\ (LeafScalars(S, n) \cap {"bool", "f64", "i64", "u64"}) # {}
(* a host-shareable struct whose members are all builtins is emitted without fields; encase's derive refuses field-less structs *)
EmptyEncaseStruct(S, o) == o.enc /\ \E n \in Emit(S) : HostShareable(S, n) /\ Fields(S, n) = << >>
(* the front end accepts a struct that declares two members of one name; the Rust struct then declares a field twice *)
DuplicateMember(S) == \E n \in Emit(S) : \E i, j \in DOMAIN Fields(S, n) : i # j /\ Fields(S, n)[i].name = Fields(S, n)[j].name
ImplWithoutType(S) == \E i \in DOMAIN S.entries : S.entries[i].stage = "vertex" /\
                         \E j \in DOMAIN S.entries[i].params : S.entries[i].params[j].k = "struct" /\ S.entries[i].params[j].ty \notin Emit(S)
AllIdents(S) ==
  { S.structs[i].name : i \in DOMAIN S.structs }
  \cup UNION { { S.structs[i].members[j].name : j \in DOMAIN S.structs[i].members } : i \in DOMAIN S.structs }
  \cup { S.globals[i].name : i \in DOMAIN S.globals } \cup { S.consts[i].name : i \in DOMAIN S.consts }
  \cup { S.overrides[i].name : i \in DOMAIN S.overrides } \cup { S.entries[i].name : i \in DOMAIN S.entries }
KeywordIdent(S) == (AllIdents(S) \cap RustKeywordsNotReservedByWgsl) # {}
NameClash(S) == (({ S.structs[i].name : i \in DOMAIN S.structs } \cup { S.consts[i].name : i \in DOMAIN S.consts }) \cap FixedItemNames) # {}

(* the vertex entry helper names one step-mode parameter per struct parameter after the snake-case form of the struct name *)
DuplicateParam(S) ==
  \E i \in DOMAIN S.entries : S.entries[i].stage = "vertex" /\
     \E a, b \in DOMAIN S.entries[i].params : a # b /\ S.entries[i].params[a].k = "struct" /\ S.entries[i].params[b].k = "struct"
        /\ Has(StructDef(S, S.entries[i].params[a].ty), "snake")
        /\ StructDef(S, S.entries[i].params[a].ty).snake = StructDef(S, S.entries[i].params[b].ty).snake
(* ENTRY_<UPPER(name)> / <UPPER(name)>_WORKGROUP_SIZE: entry points whose names differ only in case get the same constant *)
EntryConstClash(S) ==
  \E i, j \in DOMAIN S.entries : i # j /\ Has(S.entries[i], "upper") /\ S.entries[i].upper = S.entries[j].upper
(* An identifier pattern resolves to a constant of that name when one is in scope: a scalar WGSL constant (exported at the root of  *)
(* the module) named like a parameter or local variable of a root-level generated function turns that binding into a constant pattern. *)
LocalNames(S) ==
  {"device", "source"}
  \cup (IF \E i \in DOMAIN S.entries : S.entries[i].stage \in {"vertex", "fragment"} THEN {"module", "entry"} ELSE {})
  \cup (IF \E i \in DOMAIN S.entries : S.entries[i].stage = "fragment" THEN {"targets"} ELSE {})
  \cup (IF S.overrides # << >> THEN {"entries"} ELSE {})
  \cup (IF S.overrides # << >> /\ \E i \in DOMAIN S.entries : S.entries[i].stage \in {"vertex", "fragment"} THEN {"overrides"} ELSE {})
  \cup (IF \E i \in DOMAIN S.overrides : Has(S.overrides[i], "default") THEN {"value"} ELSE {})
  \cup (IF Resources(S) # << >> THEN {"pass"} \cup { "bind_group" \o Resources(S)[i].group : i \in DOMAIN Resources(S) } ELSE {})
  \cup (IF \E i \in DOMAIN S.entries : S.entries[i].stage = "vertex" /\ \E j \in DOMAIN S.entries[i].params : S.entries[i].params[j].k = "struct"
        THEN {"step_mode"} \cup UNION { { StructDef(S, S.entries[i].params[j].ty).snake : j \in { x \in DOMAIN S.entries[i].params : S.entries[i].params[x].k = "struct" /\ Has(StructDef(S, S.entries[i].params[x].ty), "snake") } }
                                         : i \in { y \in DOMAIN S.entries : S.entries[y].stage = "vertex" } }
        ELSE {})
ConstShadowsLocal(S) == \E i \in DOMAIN S.consts : ~(Has(S.consts[i], "nonscalar") /\ S.consts[i].nonscalar) /\ S.consts[i].name \in LocalNames(S)

PredictedCauses(S, o) ==
  (IF SerdeBigArray(S, o) THEN {"SerdeBigArray"} ELSE {})
  \cup (IF NonPodField(S, o) THEN {"NonPodField"} ELSE {})
  \cup (IF EncaseUnsupported(S, o) THEN {"EncaseUnsupported"} ELSE {})
  \cup (IF ImplWithoutType(S) THEN {"ImplWithoutType"} ELSE {})
  \cup (IF KeywordIdent(S) THEN {"KeywordIdent"} ELSE {})
  \cup (IF NameClash(S) THEN {"NameClash"} ELSE {})
  \cup (IF DuplicateParam(S) THEN {"DuplicateParam"} ELSE {})
  \cup (IF EntryConstClash(S) THEN {"EntryConstClash"} ELSE {})
  \cup (IF ConstShadowsLocal(S) THEN {"ConstShadowsLocal"} ELSE {})
  \cup (IF EmptyEncaseStruct(S, o) THEN {"EmptyEncaseStruct"} ELSE {})
  \cup (IF DuplicateMember(S) THEN {"DuplicateMember"} ELSE {})
=============================================================================
