------------------------------ MODULE Consts ------------------------------
(* Pipeline-overridable constants (C12) and exported module constants (C15).                *)
EXTENDS Shader, TLC

(* ---- C12 ---- *)
Key(o) == IF Has(o, "id") THEN ToString(o.id) ELSE o.name
Optional(o) == Has(o, "default")
FieldType(o) == IF Optional(o) THEN "Option<" \o o.ty \o ">" ELSE o.ty
OverrideByName(S, n) == CHOOSE o \in Range(S.overrides) : o.name = n

(* assign: Seq [field, set, f64bits?, canon?] as executed by the probe *)
IsSet(assign, n) == \E a \in Range(assign) : a.field = n /\ a.set
ValueOf(assign, n) == (CHOOSE a \in Range(assign) : a.field = n)
ExpectedMap(S, assign) ==
  { [ key |-> Key(o), bits |-> ValueOf(assign, o.name).f64bits ] : o \in { x \in Range(S.overrides) : ~Optional(x) \/ IsSet(assign, x.name) } }
MapOk(S, assign, map) ==
  /\ { [ key |-> m.key, bits |-> m.bits ] : m \in Range(map) } = ExpectedMap(S, assign)
  /\ Len(map) = Cardinality(ExpectedMap(S, assign))
(* the shader compiler resolved every supplied override to the supplied value *)
ResolvedOk(S, assign, resolved) ==
  \A o \in Range(S.overrides) : IsSet(assign, o.name) =>
     \E r \in Range(resolved) : r.name = o.name /\ r.canon = ValueOf(assign, o.name).canon

(* ---- C15 ---- *)
RustScalar == [ f32 |-> "f32", f64 |-> "f64", i32 |-> "i32", u32 |-> "u32", i64 |-> "i64", u64 |-> "u64", bool |-> "bool" ]
CanonOfLit(l) == IF Has(l, "bits") THEN l.ty \o ":" \o l.bits ELSE l.ty \o ":" \o l.dec
(* named constants of scalar type: exactly these are exported, with their constant-evaluated value (a literal, or the zero of the type  *)
(* for `T()`); Unevaluated = named scalar constants the oracle has no value for (none are known: reported as an oracle gap)          *)
Unevaluated(oc) == { c \in Range(oc) : c.named /\ c.ty.scalar \in DOMAIN RustScalar /\ ~(Has(c.lit, "ty") /\ c.lit.ty \in DOMAIN RustScalar) }
Exported(oc) == { c \in Range(oc) : c.named /\ c.ty.scalar \in DOMAIN RustScalar /\ Has(c.lit, "ty") /\ c.lit.ty \in DOMAIN RustScalar }
ExpectedConsts(oc) == { [ name |-> c.name, type_name |-> RustScalar[c.ty.scalar], canon |-> CanonOfLit(c.lit) ] : c \in Exported(oc) }
=============================================================================
