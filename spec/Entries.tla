----------------------------- MODULE Entries -----------------------------
(* Entry-point metadata (C14) and vertex buffer layouts (C07) as functions of the abstract  *)
(* shader, plus the transcription of wgpu-core's vertex-buffer rules                         *)
(* (device/resource.rs create_render_pipeline: stride, alignment, attribute bounds).         *)
EXTENDS Shader, TLC

EntriesOf(S, stage) == SelectSeq(S.entries, LAMBDA e : e.stage = stage)
StructParams(e) == SelectSeq(e.params, LAMBDA p : p.k = "struct")

MaxOf(X) == CHOOSE x \in X : \A y \in X : y <= x
LocMembers(S, name) == SelectSeq(StructDef(S, name).members, LAMBDA m : Has(m, "io") /\ m.io.k = "loc")

(* colour targets needed to address every @location the fragment entry writes *)
TargetCount(S, e) ==
  IF ~Has(e, "result") THEN 0
  ELSE CASE e.result.k = "loc" -> e.result.n + 1
         [] e.result.k = "struct" ->
              LET ls == { LocMembers(S, e.result.ty)[i].io.n : i \in DOMAIN LocMembers(S, e.result.ty) }
              IN IF ls = {} THEN 0 ELSE MaxOf(ls) + 1
         [] OTHER -> 0
(* what the code computed before the C14 fix: the NUMBER of @location outputs *)
TargetCountByCounting(S, e) ==
  IF ~Has(e, "result") THEN 0
  ELSE CASE e.result.k = "loc" -> 1
         [] e.result.k = "struct" -> Len(LocMembers(S, e.result.ty))
         [] OTHER -> 0

ScalarFmt(s) == CASE s = "f32" -> "Float32" [] s = "i32" -> "Sint32" [] s = "u32" -> "Uint32" [] s = "f64" -> "Float64" [] OTHER -> "?"
VertexFormatOf(t) ==
  CASE t.k = "scalar" -> ScalarFmt(t.s)
    [] t.k = "vec" -> ScalarFmt(t.s) \o "x" \o ToString(t.n)
    [] OTHER -> "?"
FormatSize(t) == (IF t.k = "vec" THEN t.n ELSE 1) * (IF t.s = "f64" THEN 8 ELSE 4)

(* expected attribute table of a vertex input struct given the observed Rust offsets (name -> offset string) *)
ExpectedAttrs(S, name, offs) ==
  LET ms == LocMembers(S, name)
  IN [ i \in DOMAIN ms |-> [ format |-> VertexFormatOf(ms[i].ty), location |-> ToString(ms[i].io.n), offset |-> offs[ms[i].name] ] ]

(* wgpu-core vertex buffer rules; numbers as naturals *)
VertexBufferOk(stride, attrs) ==
  /\ stride <= 2048 /\ stride % 4 = 0
  /\ \A a \in attrs : a.offset + a.size <= stride /\ a.offset % (IF a.size < 4 THEN a.size ELSE 4) = 0
=============================================================================
