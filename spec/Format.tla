----------------------------- MODULE Format -----------------------------
(* lib.rs:pretty_print_rustfmt as two processes and two bounded pipes.                      *)
(*   parent: spawn -> write the program to the child's stdin chunk by chunk (blocks when    *)
(*           the pipe is full, fails with EPIPE when the read end is gone) -> close stdin   *)
(*           -> drain the child's stdout to EOF -> wait -> decide                           *)
(*   child : one of the plans below; a kill by signal can strike at any point.              *)
(* Tolerant = TRUE is the behaviour property C19 demands (write errors are survived; only a *)
(* successful exit with complete output counts as formatted). Tolerant = FALSE is the       *)
(* original code (`write_all(..).unwrap()`, exit 0 with any output accepted) and is kept as *)
(* the self-test mutant.                                                                     *)
EXTENDS Integers, Sequences, FiniteSets

CONSTANTS Cap,        \* capacity of each pipe, in chunks
          Sizes,      \* set of program sizes (chunks) to explore: below and above Cap
          Plans,      \* child plans to explore
          Tolerant

AllPlans == { "absent", "ok", "fail_after_read", "fail_no_read", "killed", "empty", "garbage_no_read", "garbage_after_read", "stream" }
(* "garbage_after_read": reads everything, exits successfully and prints a full-size text that is NOT the program (tokens permuted, a   *)
(* blank inserted inside a string literal, a token prefix, the program twice): only a comparison of the tokens can tell                *)
(* "garbage_no_read": exits successfully before reading its input but prints something - which cannot be the program *)
(* "stream" (writes output while still reading input) is NOT among the faults C19 lists; it is  *)
(* modelled so that its deadlock is a named, known behaviour rather than a surprise.            *)

VARIABLES ppc, cpc, plan, size,
          inPipe, inR,       \* stdin pipe: chunks buffered, read end open?
          inW,               \* parent's write end open?
          outPipe, outW,     \* stdout pipe: chunks buffered, write end open?
          toWrite, childRead, childOut, got,
          garbage,           \* what the child printed is not the formatted program
          status,            \* "running" | "exit0" | "exit1" | "signal"
          result
vars == << ppc, cpc, plan, size, inPipe, inR, inW, outPipe, outW, toWrite, childRead, childOut, got, garbage, status, result >>

Init ==
  /\ plan \in Plans /\ size \in Sizes
  /\ ppc = "spawn" /\ cpc = "none"
  /\ inPipe = 0 /\ inR = FALSE /\ inW = FALSE /\ outPipe = 0 /\ outW = FALSE
  /\ toWrite = size /\ childRead = 0 /\ childOut = 0 /\ got = 0 /\ garbage = FALSE
  /\ status = "running" /\ result = "pending"

ChildAlive == cpc \notin { "none", "dead" }
PU == UNCHANGED << plan, size, garbage >>

(* ---------------------------------------------------------------- parent *)
PSpawn ==
  /\ ppc = "spawn" /\ PU
  /\ IF plan = "absent"
     THEN /\ ppc' = "decide" /\ status' = "nospawn"
          /\ UNCHANGED << cpc, inPipe, inR, inW, outPipe, outW, toWrite, childRead, childOut, got, result >>
     ELSE /\ ppc' = "write" /\ cpc' = "start" /\ inR' = TRUE /\ inW' = TRUE /\ outW' = TRUE
          /\ UNCHANGED << inPipe, outPipe, toWrite, childRead, childOut, got, status, result >>

(* one chunk into the pipe; blocked (not enabled) while the pipe is full and the reader is alive *)
PWrite ==
  /\ ppc = "write" /\ toWrite > 0 /\ PU
  /\ IF ~inR
     THEN (* EPIPE *)
          IF Tolerant
          THEN ppc' = "close_stdin" /\ UNCHANGED << cpc, inPipe, inR, inW, outPipe, outW, toWrite, childRead, childOut, got, status, result >>
          ELSE ppc' = "done" /\ result' = "Panic" /\ UNCHANGED << cpc, inPipe, inR, inW, outPipe, outW, toWrite, childRead, childOut, got, status >>
     ELSE /\ inPipe < Cap
          /\ inPipe' = inPipe + 1 /\ toWrite' = toWrite - 1
          /\ UNCHANGED << ppc, cpc, inR, inW, outPipe, outW, childRead, childOut, got, status, result >>
PWritten ==
  /\ ppc = "write" /\ toWrite = 0 /\ PU
  /\ ppc' = "close_stdin"
  /\ UNCHANGED << cpc, inPipe, inR, inW, outPipe, outW, toWrite, childRead, childOut, got, status, result >>
PCloseStdin ==
  /\ ppc = "close_stdin" /\ PU
  /\ inW' = FALSE /\ ppc' = "drain"
  /\ UNCHANGED << cpc, inPipe, inR, outPipe, outW, toWrite, childRead, childOut, got, status, result >>
PDrain ==
  /\ ppc = "drain" /\ PU
  /\ \/ /\ outPipe > 0 /\ outPipe' = outPipe - 1 /\ got' = got + 1
        /\ UNCHANGED << ppc, cpc, inPipe, inR, inW, outW, toWrite, childRead, childOut, status, result >>
     \/ /\ outPipe = 0 /\ ~outW /\ ppc' = "wait"
        /\ UNCHANGED << cpc, inPipe, inR, inW, outPipe, outW, toWrite, childRead, childOut, got, status, result >>
PWait ==
  /\ ppc = "wait" /\ status # "running" /\ PU
  /\ ppc' = "decide"
  /\ UNCHANGED << cpc, inPipe, inR, inW, outPipe, outW, toWrite, childRead, childOut, got, status, result >>
(* the formatted program arrived: all of it, and it is the program (the tolerant parent compares the tokens) *)
Complete == got = size /\ toWrite = 0 /\ ~garbage
PDecide ==
  /\ ppc = "decide" /\ PU
  /\ ppc' = "done"
  /\ result' = IF status = "exit0" /\ (IF Tolerant THEN Complete ELSE TRUE)
               THEN (IF Complete THEN "OkFormatted" ELSE "OkTruncated")
               ELSE "OkUnformatted"
  /\ UNCHANGED << cpc, inPipe, inR, inW, outPipe, outW, toWrite, childRead, childOut, got, status >>

Parent == PSpawn \/ PWrite \/ PWritten \/ PCloseStdin \/ PDrain \/ PWait \/ PDecide

(* ---------------------------------------------------------------- child *)
CU == UNCHANGED << ppc, plan, size, toWrite, got, result, inW >>
GU == UNCHANGED garbage
Die(st) == /\ cpc' = "dead" /\ status' = st /\ inR' = FALSE /\ outW' = FALSE

CStart ==
  /\ cpc = "start" /\ CU
  /\ IF plan = "fail_no_read" THEN Die("exit1") /\ GU /\ UNCHANGED << inPipe, outPipe, childRead, childOut >>
     ELSE IF plan = "garbage_no_read" THEN cpc' = "emit" /\ childOut' = 1 /\ garbage' = TRUE /\ UNCHANGED << inPipe, inR, outPipe, outW, childRead, status >>
     ELSE cpc' = "read" /\ GU /\ UNCHANGED << inPipe, inR, outPipe, outW, childRead, childOut, status >>
(* read one chunk; at EOF (pipe empty and write end closed) go on according to the plan *)
CRead ==
  /\ cpc = "read" /\ CU
  /\ garbage' = (garbage \/ (plan = "garbage_after_read" /\ inPipe = 0 /\ ~inW))
  /\ \/ /\ inPipe > 0 /\ inPipe' = inPipe - 1 /\ childRead' = childRead + 1
        /\ IF plan = "stream" THEN childOut' = childOut + 1 /\ cpc' = "emit" ELSE UNCHANGED << childOut, cpc >>
        /\ UNCHANGED << inR, outPipe, outW, status >>
     \/ /\ inPipe = 0 /\ ~inW
        /\ CASE plan = "fail_after_read" -> Die("exit1") /\ UNCHANGED << inPipe, outPipe, childRead, childOut >>
             [] plan = "empty" -> Die("exit0") /\ UNCHANGED << inPipe, outPipe, childRead, childOut >>
             [] plan = "stream" -> Die("exit0") /\ UNCHANGED << inPipe, outPipe, childRead, childOut >>
             [] OTHER -> cpc' = "emit" /\ childOut' = childRead /\ UNCHANGED << inPipe, inR, outPipe, outW, childRead, status >>
CEmit ==
  /\ cpc = "emit" /\ CU /\ GU
  /\ \/ /\ childOut > 0 /\ outPipe < Cap
        /\ outPipe' = outPipe + 1 /\ childOut' = childOut - 1
        /\ UNCHANGED << cpc, inPipe, inR, outW, childRead, status >>
     \/ /\ childOut = 0
        /\ IF plan = "stream" THEN cpc' = "read" /\ UNCHANGED << inPipe, inR, outPipe, outW, childRead, childOut, status >>
           ELSE Die("exit0") /\ UNCHANGED << inPipe, outPipe, childRead, childOut >>
(* a signal can strike at any point of the child's life *)
CKilled ==
  /\ plan = "killed" /\ ChildAlive /\ CU /\ GU
  /\ Die("signal") /\ UNCHANGED << inPipe, outPipe, childRead, childOut >>

Child == CStart \/ CRead \/ CEmit \/ CKilled

(* a finished call stays finished: with this stutter step a TLC deadlock is a real hang *)
Terminated == ppc = "done" /\ UNCHANGED vars
Next == Parent \/ Child \/ Terminated
Spec == Init /\ [][Next]_vars /\ WF_vars(Parent) /\ WF_vars(CStart \/ CRead \/ CEmit)

(* ---------------------------------------------------------------- properties (C19) *)
Safe == result \in { "pending", "OkFormatted", "OkUnformatted" }
Returns == <>(result # "pending")
FormattedOnlyIfComplete == result = "OkFormatted" => (status = "exit0" /\ Complete)
=============================================================================
