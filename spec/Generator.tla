---------------------------- MODULE Generator ----------------------------
(* One call of create_shader_module_inner as a sequence of phases. The environment decides *)
(* what the WGSL front end and the validator answer; the generator decides what to do with *)
(* the answers. Phase names are the `phase` hook events of the instrumented library.        *)
EXTENDS Integers, Sequences, FiniteSets

CONSTANTS GateBefore   \* the generation phase in front of which the validation gate sits ("bind_group_data" in the code)

Phases == << "parsed", "validated", "bind_group_data", "stages", "structs", "assembled" >>
GenPhases == { "bind_group_data", "stages", "structs", "assembled" }

VARIABLES pc, parse, validateReq, valid, bgd, docPanic, rustfmt, result, trace
vars == << pc, parse, validateReq, valid, bgd, docPanic, rustfmt, result, trace >>

Init ==
  /\ pc = "call" /\ result = "pending" /\ trace = << >>
  /\ parse \in {"ok", "err"} /\ validateReq \in BOOLEAN /\ valid \in {"ok", "err"}
  /\ bgd \in {"ok", "dup", "nonconsecutive"} /\ docPanic \in BOOLEAN /\ rustfmt \in BOOLEAN

Ret(r) == result' = r /\ pc' = "done"
Emit(p) == trace' = Append(trace, p)
Env == UNCHANGED << parse, validateReq, valid, bgd, docPanic, rustfmt >>

Parse == /\ pc = "call" /\ Env
         /\ IF parse = "err" THEN Ret("ErrParse") /\ UNCHANGED trace
            ELSE pc' = "parsed" /\ Emit("parsed") /\ UNCHANGED result

(* the validation gate: taken once, in front of phase GateBefore *)
Gate(next) ==
  IF validateReq /\ valid = "err" THEN Ret("ErrValidation") /\ UNCHANGED trace
  ELSE pc' = next /\ Emit(next) /\ UNCHANGED result

Validate == /\ pc = "parsed" /\ Env
            /\ IF GateBefore = "bind_group_data" THEN Gate("validated")
               ELSE pc' = "validated" /\ Emit("validated") /\ UNCHANGED result

BindGroupData == /\ pc = "validated" /\ Env
                 /\ CASE bgd = "dup" -> Ret("ErrDuplicateBinding") /\ UNCHANGED trace
                      [] bgd = "nonconsecutive" -> Ret("ErrNonConsecutive") /\ UNCHANGED trace
                      [] OTHER -> IF GateBefore = "stages" THEN Gate("bind_group_data")
                                  ELSE pc' = "bind_group_data" /\ Emit("bind_group_data") /\ UNCHANGED result

Stages == pc = "bind_group_data" /\ Env /\ pc' = "stages" /\ Emit("stages") /\ UNCHANGED result
Structs == /\ pc = "stages" /\ Env
           /\ IF docPanic THEN Ret("Panic") /\ UNCHANGED trace
              ELSE pc' = "structs" /\ Emit("structs") /\ UNCHANGED result
Assemble == pc = "structs" /\ Env /\ pc' = "assembled" /\ Emit("assembled") /\ UNCHANGED result
Return == pc = "assembled" /\ Env /\ Ret("Ok") /\ UNCHANGED trace

Next == Parse \/ Validate \/ BindGroupData \/ Stages \/ Structs \/ Assemble \/ Return
Spec == Init /\ [][Next]_vars

GenStarted == \E i \in DOMAIN trace : trace[i] \in GenPhases

(* C17 *)
ParseGate == parse = "err" => (result \in {"pending", "ErrParse"} /\ trace = << >>)
ValidationGate == (parse = "ok" /\ validateReq /\ valid = "err") => (result \in {"pending", "ErrValidation"} /\ ~GenStarted)
NoPanicOnRejected == (parse = "err" \/ (validateReq /\ valid = "err")) => result # "Panic"
OkOnlyIfAccepted == result = "Ok" => (parse = "ok" /\ (validateReq => valid = "ok") /\ bgd = "ok")
(* the phase sequences a finished call may have recorded *)
AllowedTraces == { SubSeq(Phases, 1, n) : n \in 0 .. Len(Phases) }
TraceShape == trace \in AllowedTraces
=============================================================================
