----------------------------- MODULE History -----------------------------
(* Several callers run the generator concurrently. Each caller steps through the phases of  *)
(* Generator.tla with its own local state; `shared` stands for every piece of state that    *)
(* outlives a call or is visible to another thread. In the specification no phase reads or  *)
(* writes it, hence every interleaving returns, for each caller, the result of a sequential *)
(* run on that caller's input (C18). Leak # 0 models a phase that caches something in       *)
(* shared state and is used as the self-test mutant.                                        *)
EXTENDS Integers, Sequences, FiniteSets

CONSTANTS Callers, NSteps, Inputs, Leak

VARIABLES pcs, input, loc, shared, sched
vars == << pcs, input, loc, shared, sched >>

Init ==
  /\ pcs = [ c \in Callers |-> 0 ]
  /\ input \in [ Callers -> Inputs ]
  /\ loc = [ c \in Callers |-> << >> ]
  /\ shared = 0
  /\ sched = << >>

(* what phase p contributes to a caller's result *)
Contribution(c, p) == IF Leak # 0 /\ p = Leak /\ shared # 0 THEN shared ELSE input[c]

Step(c) ==
  /\ pcs[c] < NSteps
  /\ pcs' = [ pcs EXCEPT ![c] = @ + 1 ]
  /\ loc' = [ loc EXCEPT ![c] = Append(@, Contribution(c, pcs[c] + 1)) ]
  /\ shared' = IF Leak # 0 /\ pcs[c] + 1 = Leak THEN input[c] ELSE shared
  /\ sched' = Append(sched, c)
  /\ UNCHANGED input

Next == \E c \in Callers : Step(c)
Spec == Init /\ [][Next]_vars

Done(c) == pcs[c] = NSteps
AllDone == \A c \in Callers : Done(c)
Sequential(i) == [ p \in 1 .. NSteps |-> i ]
(* C18: the result is a function of the caller's own input, whatever the interleaving *)
Pure == \A c \in Callers : Done(c) => loc[c] = Sequential(input[c])
NoSharedState == shared = 0
=============================================================================
