--------------------------- MODULE HistoryFine ---------------------------
(* History.tla lets a caller take a whole phase in one step: enough for state that is read    *)
(* or written once per phase, blind to state that is touched INSIDE a phase. This module      *)
(* refines one phase - the recursive walk over nested types in front of the struct phase -    *)
(* to single recursion steps. In the specification the walk only uses the caller's own stack  *)
(* (its depth), so every caller reaches every level whatever the others do (Pure). With       *)
(* SharedCounter = TRUE the recursion guard compares a counter that all callers increment:    *)
(* the depths of the callers inside the walk add up, a caller may be refused a level it would *)
(* reach alone, and the result depends on the interleaving.                                   *)
(*                                                                                            *)
(* TLC also answers how much parallelism an experiment needs before it can see such a defect: *)
(* with Callers * Depth <= Limit the mutant is indistinguishable from the specification       *)
(* (MC_HistoryFine_two.cfg holds). A scheduler that runs one thread at a time (the token      *)
(* passing replay of History.tla's schedules) can therefore never show it; the barrier mode   *)
(* of the driver releases 16 threads into the phase together.                                 *)
EXTENDS Integers, FiniteSets

CONSTANTS Callers, Depth, Limit, SharedCounter

VARIABLES depth, reached, pc, counter
vars == << depth, reached, pc, counter >>

RECURSIVE SumOver(_, _)
SumOver(f, S) == IF S = {} THEN 0 ELSE LET x == CHOOSE x \in S : TRUE IN f[x] + SumOver(f, S \ {x})

Init ==
  /\ depth = [ c \in Callers |-> 0 ]
  /\ reached = [ c \in Callers |-> {} ]
  /\ pc = [ c \in Callers |-> "down" ]
  /\ counter = 0

(* what the recursion guard of caller c looks at *)
Seen(c) == IF SharedCounter THEN counter ELSE depth[c]

Enter(c) ==
  /\ pc[c] = "down" /\ depth[c] < Depth
  /\ IF Seen(c) < Limit
     THEN /\ depth' = [ depth EXCEPT ![c] = @ + 1 ]
          /\ reached' = [ reached EXCEPT ![c] = @ \cup { depth[c] + 1 } ]
          /\ counter' = counter + 1
          /\ UNCHANGED pc
     ELSE (* the guard refuses: the walk stops following nested types here *)
          /\ pc' = [ pc EXCEPT ![c] = "up" ]
          /\ UNCHANGED << depth, reached, counter >>

Bottom(c) ==
  /\ pc[c] = "down" /\ depth[c] = Depth
  /\ pc' = [ pc EXCEPT ![c] = "up" ]
  /\ UNCHANGED << depth, reached, counter >>

Leave(c) ==
  /\ pc[c] = "up" /\ depth[c] > 0
  /\ depth' = [ depth EXCEPT ![c] = @ - 1 ]
  /\ counter' = counter - 1
  /\ UNCHANGED << reached, pc >>

Finish(c) ==
  /\ pc[c] = "up" /\ depth[c] = 0
  /\ pc' = [ pc EXCEPT ![c] = "done" ]
  /\ UNCHANGED << depth, reached, counter >>

Next == \E c \in Callers : Enter(c) \/ Bottom(c) \/ Leave(c) \/ Finish(c)
Spec == Init /\ [][Next]_vars /\ WF_vars(Next)

TypeOK == /\ depth \in [ Callers -> 0 .. Depth ] /\ pc \in [ Callers -> {"down", "up", "done"} ] /\ counter \in 0 .. Cardinality(Callers) * Depth
CounterIsSum == counter = SumOver(depth, Callers)
(* C18 at recursion-step granularity: what a caller collects is what it collects alone *)
Pure == \A c \in Callers : pc[c] = "done" => reached[c] = 1 .. Depth
Terminates == <>(\A c \in Callers : pc[c] = "done")
=============================================================================
