----------------------------- MODULE Layout -----------------------------
(* WGSL memory layout (WGSL spec 14.4 "Memory Layout": AlignOf / SizeOf / struct member     *)
(* offsets, including @align / @size and naga's 64-bit scalar extension), written           *)
(* independently of naga's Layouter, which serves as the second oracle.                     *)
EXTENDS Shader

RoundUp(k, n) == ((n + k - 1) \div k) * k
MaxOf(X) == CHOOSE x \in X : \A y \in X : y <= x

ScalarSize(s) ==
  CASE s \in {"f32", "i32", "u32"} -> 4
    [] s \in {"f64", "i64", "u64"} -> 8
    [] s = "f16" -> 2
    [] OTHER -> 1

RECURSIVE AlignOf(_, _), SizeOf(_, _), Offsets(_, _, _, _)
MemberAlign(S, m) == IF Has(m, "align") THEN m.align ELSE AlignOf(S, m.ty)
MemberSize(S, m) == IF Has(m, "size") THEN m.size ELSE SizeOf(S, m.ty)

AlignOf(S, t) ==
  CASE t.k = "scalar" -> ScalarSize(t.s)
    [] t.k = "atomic" -> ScalarSize(t.s)
    [] t.k = "vec" -> IF t.n = 2 THEN 2 * ScalarSize(t.s) ELSE 4 * ScalarSize(t.s)
    [] t.k = "mat" -> IF t.r = 2 THEN 2 * ScalarSize(t.s) ELSE 4 * ScalarSize(t.s)
    [] t.k \in {"array", "rtarray"} -> AlignOf(S, t.e)
    [] t.k = "struct" -> LET ms == StructDef(S, t.name).members IN MaxOf({ MemberAlign(S, ms[i]) : i \in DOMAIN ms })
    [] OTHER -> 1

Stride(S, e) == RoundUp(AlignOf(S, e), SizeOf(S, e))

(* offsets of members 1..n given as a sequence; acc = offsets so far *)
Offsets(S, ms, i, acc) ==
  IF i > Len(ms) THEN acc
  ELSE LET prevEnd == IF i = 1 THEN 0 ELSE acc[i - 1] + MemberSize(S, ms[i - 1])
       IN Offsets(S, ms, i + 1, Append(acc, RoundUp(MemberAlign(S, ms[i]), prevEnd)))
MemberOffsets(S, name) == Offsets(S, StructDef(S, name).members, 1, << >>)

SizeOf(S, t) ==
  CASE t.k = "scalar" -> ScalarSize(t.s)
    [] t.k = "atomic" -> ScalarSize(t.s)
    [] t.k = "vec" -> t.n * ScalarSize(t.s)
    [] t.k = "mat" -> t.c * RoundUp(IF t.r = 2 THEN 2 * ScalarSize(t.s) ELSE 4 * ScalarSize(t.s), t.r * ScalarSize(t.s))
    [] t.k = "array" -> t.n * Stride(S, t.e)
    [] t.k = "rtarray" -> Stride(S, t.e)      \* minimum binding size convention: one element
    [] t.k = "struct" ->
         LET ms == StructDef(S, t.name).members
             offs == MemberOffsets(S, t.name)
             n == Len(ms)
         IN RoundUp(AlignOf(S, t), offs[n] + MemberSize(S, ms[n]))
    [] OTHER -> 0

StructSize(S, name) == SizeOf(S, [ k |-> "struct", name |-> name ])

(* byte position of every scalar component of a value of type t placed at `base`, in WGSL order          *)
(* (struct members in order, array elements in order, matrix columns in order, vector components);       *)
(* k = number of elements of a trailing runtime-sized array                                               *)
RECURSIVE Positions(_, _, _, _), SeqPositions(_, _, _, _, _, _)
SeqPositions(S, t, base, stride, n, k) ==
  IF n = 0 THEN << >> ELSE Positions(S, t, base, k) \o SeqPositions(S, t, base + stride, stride, n - 1, k)
RECURSIVE MemberPositions(_, _, _, _, _, _)
MemberPositions(S, ms, offs, i, base, k) ==
  IF i > Len(ms) THEN << >>
  ELSE (IF Has(ms[i], "io") /\ ms[i].io.k = "builtin" THEN << >> ELSE Positions(S, ms[i].ty, base + offs[i], k))
       \o MemberPositions(S, ms, offs, i + 1, base, k)
Positions(S, t, base, k) ==
  CASE t.k \in {"scalar", "atomic"} -> << base >>
    [] t.k = "vec" -> [ i \in 1 .. t.n |-> base + (i - 1) * ScalarSize(t.s) ]
    [] t.k = "mat" -> SeqPositions(S, [ k |-> "vec", n |-> t.r, s |-> t.s ], base,
                                   RoundUp(IF t.r = 2 THEN 2 * ScalarSize(t.s) ELSE 4 * ScalarSize(t.s), t.r * ScalarSize(t.s)), t.c, k)
    [] t.k = "array" -> SeqPositions(S, t.e, base, Stride(S, t.e), t.n, k)
    [] t.k = "rtarray" -> SeqPositions(S, t.e, base, Stride(S, t.e), k, k)
    [] t.k = "struct" -> MemberPositions(S, StructDef(S, t.name).members, MemberOffsets(S, t.name), 1, base, k)
    [] OTHER -> << >>
StructPositions(S, name, k) == Positions(S, [ k |-> "struct", name |-> name ], 0, k)
(* length of the byte image: the struct size; with a trailing runtime array of k elements at least one element *)
HasRtTail(S, name) == LET ms == StructDef(S, name).members IN ms[Len(ms)].ty.k = "rtarray"
ImageLen(S, name, k) ==
  IF ~HasRtTail(S, name) THEN StructSize(S, name)
  ELSE LET ms == StructDef(S, name).members
           offs == MemberOffsets(S, name)
           n == Len(ms)
           kk == IF k = 0 THEN 1 ELSE k
       IN RoundUp(AlignOf(S, [ k |-> "struct", name |-> name ]), offs[n] + kk * Stride(S, ms[n].ty.e))
HasExplicitLayoutAttrs(S, name) == \E m \in Range(StructDef(S, name).members) : Has(m, "align") \/ Has(m, "size")
=============================================================================
