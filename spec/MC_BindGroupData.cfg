SPECIFICATION Spec
CONSTANTS MaxLen = 4 MaxGroup = 3 MaxBinding = 2 DupScope = "group" Export = TRUE
INVARIANTS ContractInv TableInv FirstDupInv RunInv ExportInv
CHECK_DEADLOCK FALSE
