---------------------- MODULE MC_BindGroupData ----------------------
(* Bounded exhaustive check of the scan/density algorithm against the C11 contract, over    *)
(* every declaration sequence up to MaxLen over Groups x Bindings; each sequence is also     *)
(* exported as a case for replay into the real generator.                                    *)
EXTENDS BindGroupData, TLC, Json

CONSTANTS MaxLen, MaxGroup, MaxBinding, DupScope, Export

VARIABLES D, st
vars == <<D, st>>

Decls == (0 .. MaxGroup) \X (0 .. MaxBinding)
Init == /\ D \in UNION { [1 .. n -> Decls] : n \in 0 .. MaxLen }
        /\ st = ScanInit

Scan == /\ st.res.kind = "pending" /\ st.i <= Len(D)
        /\ st' = ScanStep(D, st, DupScope) /\ UNCHANGED D
Density == /\ st.res.kind = "pending" /\ st.i > Len(D)
           /\ st' = DensityStep(st) /\ UNCHANGED D
Next == Scan \/ Density
Spec == Init /\ [][Next]_vars

Done == st.res.kind # "pending"
ContractInv == Done => Contract(D, st.res)
TableInv == (Done /\ st.res.kind = "ok") => st.table = ExpectedTable(D)
(* conformance detail: the reported index is the first repeat in scan order *)
FirstDupInv == (Done /\ st.res.kind = "dup") => st.res.binding = FirstDupBinding(D)
(* one-shot run equals the stepwise run *)
RunInv == Done => RunScan(D, ScanInit, DupScope).res = st.res

ExportInv == (Export /\ Done) =>
  PrintT("CASE " \o ToJson([ decls |-> [ i \in DOMAIN D |-> [g |-> D[i][1], b |-> D[i][2]] ], expect |-> st.res.kind ]))
=============================================================================
