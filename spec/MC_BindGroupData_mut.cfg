SPECIFICATION Spec
CONSTANTS MaxLen = 4 MaxGroup = 3 MaxBinding = 2 DupScope = "first" Export = FALSE
INVARIANTS ContractInv TableInv FirstDupInv RunInv ExportInv
CHECK_DEADLOCK FALSE
