SPECIFICATION Spec
CONSTANTS Export = TRUE AtomicAs = "Atomic" Slice = "quick"
INVARIANTS EntryInv UseInv ExportInv
CHECK_DEADLOCK FALSE
