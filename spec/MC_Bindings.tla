---------------------------- MODULE MC_Bindings ----------------------------
(* The complete resource table: every buffer class, every sampled / depth / multisampled     *)
(* texture type, all 41 storage formats x access x dimension, both samplers. Checks that the *)
(* specified entry synthesis (Bindings.tla) satisfies the transcribed wgpu rules for every   *)
(* row, and exports every row as a shader that uses the resource from all three stages.      *)
EXTENDS WgpuRules, Json

CONSTANTS Export, AtomicAs, Slice   \* AtomicAs: access emitted for `atomic` storage textures; Slice: "all" | "quick"

VARIABLES row
vars == <<row>>

V4 == [ k |-> "vec", n |-> 4, s |-> "f32" ]
BufTypes == { [ k |-> "scalar", s |-> "f32" ], V4, [ k |-> "mat", c |-> 4, r |-> 4, s |-> "f32" ], [ k |-> "array", n |-> 4, e |-> V4 ], [ k |-> "struct", name |-> "Block" ] }
Buffers == { [ space |-> sp, ty |-> t ] : sp \in {"uniform", "storage_r", "storage_rw"}, t \in BufTypes }
           \cup { [ space |-> sp, ty |-> [ k |-> "rtarray", e |-> V4 ] ] : sp \in {"storage_r", "storage_rw"} }
Tex(class, dim, kind, multi) == [ k |-> "tex", class |-> class, dim |-> dim, kind |-> kind, multi |-> multi ]
Sampled == { [ space |-> "handle", ty |-> Tex("sampled", d, kd, FALSE) ] : d \in {"1d", "2d", "2d_array", "3d", "cube", "cube_array"}, kd \in {"f32", "i32", "u32"} }
           \cup { [ space |-> "handle", ty |-> Tex("sampled", "2d", kd, TRUE) ] : kd \in {"f32", "i32", "u32"} }
Depth == { [ space |-> "handle", ty |-> [ k |-> "tex", class |-> "depth", dim |-> d, multi |-> FALSE ] ] : d \in {"2d", "2d_array", "cube", "cube_array"} }
         \cup { [ space |-> "handle", ty |-> [ k |-> "tex", class |-> "depth", dim |-> "2d", multi |-> TRUE ] ] }
QuickFormats == { "rgba8unorm", "r32float", "rgba16sint", "rg32uint" }
Storage == { [ space |-> "handle", ty |-> [ k |-> "tex", class |-> "storage", dim |-> d, format |-> f, access |-> a ] ] :
               f \in (IF Slice = "all" THEN StorageFormats \ {"r64uint"} ELSE QuickFormats), d \in {"1d", "2d", "2d_array", "3d"}, a \in {"read", "write", "read_write"} }
           \cup (IF Slice = "all" THEN {} ELSE
                 { [ space |-> "handle", ty |-> [ k |-> "tex", class |-> "storage", dim |-> "2d", format |-> f, access |-> "write" ] ] : f \in StorageFormats \ {"r64uint"} })
           \cup { [ space |-> "handle", ty |-> [ k |-> "tex", class |-> "storage", dim |-> "2d", format |-> f, access |-> "atomic" ] ] : f \in {"r32uint", "r32sint"} }
Samplers == { [ space |-> "handle", ty |-> [ k |-> "sampler", cmp |-> c ] ] : c \in BOOLEAN }
Rows == Buffers \cup Sampled \cup Depth \cup Storage \cup Samplers

Init == row \in Rows
Next == UNCHANGED row
Spec == Init /\ [][Next]_vars

G == [ name |-> "res", space |-> row.space, group |-> "0", binding |-> "0", gr |-> 0, br |-> 0, ty |-> row.ty ]
(* the entry as specified, with the access really emitted for atomic storage textures *)
Emitted == LET e == GenEntryTy(G) IN IF e.k = "storage_texture" /\ e.access = "Atomic" THEN [ e EXCEPT !.access = AtomicAs ] ELSE e
EntryInv == BglEntryError(Emitted) = "" \/ (row.ty.k = "tex" /\ row.ty.class = "sampled" /\ row.ty.multi /\ row.ty.kind = "f32")   \* known finding F7
UseInv == BindingUseError(G, Emitted) = ""

How == CASE row.ty.k = "sampler" -> "sample"
         [] row.ty.k = "tex" /\ row.ty.class = "storage" -> (CASE row.ty.access = "write" -> "tex_store" [] row.ty.access = "atomic" -> "tex_atomic" [] OTHER -> "tex_load")
         [] row.ty.k = "tex" /\ row.ty.class = "sampled" -> (IF row.ty.dim \in {"cube", "cube_array"} THEN "tex_dims" ELSE "tex_load")
         [] row.ty.k = "tex" -> (IF row.ty.multi \/ row.ty.dim \in {"2d", "2d_array"} THEN "tex_load" ELSE "tex_dims")
         [] row.ty.k = "rtarray" -> "array_length"
         [] OTHER -> "load"
Companion == [ name |-> "companion", space |-> "handle", group |-> "0", binding |-> "1", gr |-> 0, br |-> 1,
               ty |-> IF row.ty.k = "sampler" /\ row.ty.cmp THEN [ k |-> "tex", class |-> "depth", dim |-> "2d", multi |-> FALSE ] ELSE Tex("sampled", "2d", "f32", FALSE) ]
Acc == IF row.ty.k = "sampler" THEN [ k |-> "access", g |-> "res", how |-> "sample", with |-> "companion" ] ELSE [ k |-> "access", g |-> "res", how |-> How ]
S == [ structs |-> << [ name |-> "Block", members |-> << [ name |-> "a", ty |-> V4 ], [ name |-> "b", ty |-> [ k |-> "scalar", s |-> "u32" ] ] >> ] >>,
       consts |-> << >>, overrides |-> << >>, functions |-> << >>,
       globals |-> IF row.ty.k = "sampler" THEN << G, Companion >> ELSE << G >>,
       entries |-> << [ name |-> "vs_main", stage |-> "vertex", params |-> << >>, wg |-> << >>, body |-> << Acc >> ],
                      [ name |-> "fs_main", stage |-> "fragment", params |-> << >>, wg |-> << >>, body |-> << Acc >> ],
                      [ name |-> "cs_main", stage |-> "compute", params |-> << >>, wg |-> << "1" >>, body |-> << Acc >> ] >> ]
ExportInv == Export => PrintT("CASE " \o ToJson([ S |-> S ]))
=============================================================================
