SPECIFICATION Spec
CONSTANTS Export = FALSE AtomicAs = "ReadWrite" Slice = "quick"
INVARIANTS EntryInv UseInv ExportInv
CHECK_DEADLOCK FALSE
