SPECIFICATION Spec
CONSTANTS KeyByName = FALSE
INVARIANTS MapInv LookupInv
CHECK_DEADLOCK FALSE
