----------------------------- MODULE MC_Consts -----------------------------
(* Bounded check of the override map construction (C12): for every set of up to two          *)
(* overrides (4 types x default? x @id?) and every assignment of set/unset optionals, the    *)
(* map built by the generated `constants()` (modelled by BuildMap) has exactly the required  *)
(* and the set optional entries under the key the shader compiler looks up.                  *)
EXTENDS Consts, Json

CONSTANTS KeyByName   \* self-test mutant: required overrides with an @id keyed by name

VARIABLES S, assign
vars == <<S, assign>>

Tys == {"bool", "i32", "u32", "f32"}
OvChoices(n) == { [ name |-> n, ty |-> t ] : t \in Tys }
                \cup { [ name |-> n, ty |-> t, default |-> "1" ] : t \in Tys }
                \cup { [ name |-> n, ty |-> t, id |-> i ] : t \in Tys, i \in {0, 35} }
                \cup { [ name |-> n, ty |-> t, default |-> "1", id |-> i ] : t \in Tys, i \in {0, 35} }
OvSeqs == { << a >> : a \in OvChoices("a") }
          \cup UNION { { << a, b >> : b \in { x \in OvChoices("b") : ~(Has(x, "id") /\ Has(a, "id") /\ x.id = a.id) } } : a \in OvChoices("a") }
Assigns(ovs) == [ DOMAIN ovs -> BOOLEAN ]   \* is the field given a value (optional ones may be left None)

Init == \E ovs \in OvSeqs : /\ S = [ overrides |-> ovs ]
                            /\ \E f \in Assigns(ovs) : assign = [ i \in DOMAIN ovs |-> [ field |-> ovs[i].name, set |-> (f[i] \/ ~Optional(ovs[i])), f64bits |-> "v" \o ToString(i), canon |-> "c" \o ToString(i) ] ]
Next == UNCHANGED vars
Spec == Init /\ [][Next]_vars

(* operational: what the generated constants() does *)
KeyUsed(o) == IF KeyByName /\ ~Optional(o) THEN o.name ELSE Key(o)
BuildMap == LET req == SelectSeq(S.overrides, LAMBDA o : ~Optional(o))
                opt == SelectSeq(S.overrides, LAMBDA o : Optional(o) /\ IsSet(assign, o.name))
            IN [ i \in DOMAIN req |-> [ key |-> KeyUsed(req[i]), bits |-> ValueOf(assign, req[i].name).f64bits ] ]
               \o [ i \in DOMAIN opt |-> [ key |-> KeyUsed(opt[i]), bits |-> ValueOf(assign, opt[i].name).f64bits ] ]
MapInv == MapOk(S, assign, BuildMap)
(* the compiler's lookup: every required override is found under its key *)
LookupInv == \A o \in Range(S.overrides) : ~Optional(o) => \E m \in Range(BuildMap) : m.key = Key(o)
=============================================================================
