SPECIFICATION Spec
CONSTANTS KeyByName = TRUE
INVARIANTS MapInv LookupInv
CHECK_DEADLOCK FALSE
