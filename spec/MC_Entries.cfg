SPECIFICATION Spec
CONSTANTS Export = TRUE
INVARIANTS TargetInv ExportInv
CHECK_DEADLOCK FALSE
