---------------------------- MODULE MC_Entries ----------------------------
(* Bounded enumeration of entry-point shapes (C14, C07): fragment results (none, a located   *)
(* value, a builtin, structs over every non-empty subset of locations 0..3 with and without  *)
(* builtins), vertex parameter sequences over two input structs, a builtin and a located     *)
(* parameter, and workgroup sizes with 1..3 dimensions from literals and constants.          *)
EXTENDS Entries, Json

CONSTANTS Export
VARIABLES S
vars == <<S>>

V4 == [ k |-> "vec", n |-> 4, s |-> "f32" ]
F32 == [ k |-> "scalar", s |-> "f32" ]
Loc(n) == [ k |-> "loc", n |-> n ]
Bi(b) == [ k |-> "builtin", b |-> b ]
SetToSeq(X) == LET RECURSIVE F(_) F(Y) == IF Y = {} THEN << >> ELSE LET y == CHOOSE z \in Y : \A w \in Y : z <= w IN << y >> \o F(Y \ {y}) IN F(X)

VA == [ name |-> "VertexA", members |-> << [ name |-> "position", ty |-> [ k |-> "vec", n |-> 3, s |-> "f32" ], io |-> Loc(0) ],
                                          [ name |-> "uv", ty |-> [ k |-> "vec", n |-> 2, s |-> "f32" ], io |-> Loc(1) ] >> ]
VB == [ name |-> "InstanceB", members |-> << [ name |-> "tint", ty |-> V4, io |-> Loc(5) ],
                                            [ name |-> "iid", ty |-> [ k |-> "scalar", s |-> "u32" ], io |-> Bi("instance_index") ],
                                            [ name |-> "layer", ty |-> [ k |-> "scalar", s |-> "u32" ], io |-> Loc(4) ] >> ]
FOut(L, depth, mask) ==
  [ name |-> "FragOut", members |->
      (IF depth THEN << [ name |-> "depth", ty |-> F32, io |-> Bi("frag_depth") ] >> ELSE << >>)
      \o [ i \in DOMAIN SetToSeq(L) |-> [ name |-> "c" \o ToString(SetToSeq(L)[i]), ty |-> V4, io |-> Loc(SetToSeq(L)[i]) ] ]
      \o (IF mask THEN << [ name |-> "mask", ty |-> [ k |-> "scalar", s |-> "u32" ], io |-> Bi("sample_mask") ] >> ELSE << >>) ]

VI == [ name |-> "Indices", members |-> << [ name |-> "vertex", ty |-> [ k |-> "scalar", s |-> "u32" ], io |-> Bi("vertex_index") ],
                                          [ name |-> "instance", ty |-> [ k |-> "scalar", s |-> "u32" ], io |-> Bi("instance_index") ] >> ]
ParamAtoms == { [ k |-> "struct", name |-> "a", ty |-> "VertexA" ], [ k |-> "struct", name |-> "b", ty |-> "InstanceB" ], [ k |-> "struct", name |-> "idx", ty |-> "Indices" ],
                [ k |-> "builtin", name |-> "vi", b |-> "vertex_index" ], [ k |-> "loc", name |-> "extra", n |-> 7, ty |-> F32 ] }
StructAtoms == { x \in ParamAtoms : x.k = "struct" }
ParamSeqs == { s \in UNION { [ 1 .. n -> ParamAtoms ] : n \in 0 .. 3 } : \A i, j \in DOMAIN s : i # j => s[i] # s[j] }

VEntry(name, ps) == [ name |-> name, stage |-> "vertex", params |-> ps, body |-> << >>, wg |-> << >>, result |-> Bi("position") ]
FEntryNone(name) == [ name |-> name, stage |-> "fragment", params |-> << >>, body |-> << >>, wg |-> << >> ]
FEntry(name, res) == [ name |-> name, stage |-> "fragment", params |-> << >>, body |-> << >>, wg |-> << >>, result |-> res ]
CEntry(name, wg) == [ name |-> name, stage |-> "compute", params |-> << >>, body |-> << >>, wg |-> wg ]
WgChoices == { << "1" >>, << "8", "4" >>, << "2", "3", "4" >>, << "N" >>, << "8", "N", "2" >>, << "64", "1", "1" >> }

Base(structs, entries) ==
  [ structs |-> structs, globals |-> << >>, overrides |-> << >>, functions |-> << >>,
    consts |-> << [ name |-> "N", expr |-> "4u" ] >>, entries |-> entries ]

Shaders ==
  { Base(<< VA, VB, VI >>, << VEntry("vs_main", ps) >>) : ps \in { q \in ParamSeqs : ~(\E i, j \in DOMAIN q : i # j /\ q[i].k = "builtin" /\ q[j].k = "struct" /\ q[j].ty = "Indices") } }
  \cup UNION { { Base(<< VA, VB, VI >>, << VEntry("vs_one", << p >>), VEntry("vs_two", << q, p >>) >>) : q \in StructAtoms \ {p} } : p \in StructAtoms }
  \cup { Base(<< >>, << FEntryNone("fs_none") >>) }
  \cup { Base(<< >>, << FEntry("fs_loc", [ k |-> "loc", n |-> n, ty |-> V4 ]) >>) : n \in {0, 1, 3} }
  \cup { Base(<< >>, << FEntry("fs_depth", Bi("frag_depth")) >>) }
  \cup { Base(<< FOut(L, d, m) >>, << FEntry("fs_struct", [ k |-> "struct", ty |-> "FragOut" ]) >>) : L \in (SUBSET {0, 1, 2, 3}) \ {{}}, d \in BOOLEAN, m \in BOOLEAN }
  \cup { Base(<< FOut({}, TRUE, TRUE) >>, << FEntry("fs_builtins", [ k |-> "struct", ty |-> "FragOut" ]) >>) }
  \cup { Base(<< >>, << CEntry("cs_main", w) >>) : w \in WgChoices }
  \cup { Base(<< VA >>, << CEntry("first", << "8" >>), VEntry("VS_Upper", << [ k |-> "struct", name |-> "a", ty |-> "VertexA" ] >>), CEntry("second_pass", << "4", "4" >>),
                           FEntry("fs_a", [ k |-> "loc", n |-> 0, ty |-> V4 ]), FEntry("fs_b", [ k |-> "loc", n |-> 2, ty |-> V4 ]) >>) }

Init == S \in Shaders
Next == UNCHANGED S
Spec == Init /\ [][Next]_vars

(* the count of @location outputs differs from the number of targets needed exactly when locations have gaps *)
TargetInv == \A i \in DOMAIN S.entries : S.entries[i].stage = "fragment" => TargetCountByCounting(S, S.entries[i]) <= TargetCount(S, S.entries[i])
ExportInv == Export => PrintT("CASE " \o ToJson([ S |-> S ]))
=============================================================================
