---------------------------- MODULE MC_Format ----------------------------
EXTENDS Format, TLC, Json
CONSTANTS Export
Done == ppc = "done"
(* every (plan, size, outcome) the specification allows: exported as the catalogue of expected endings *)
ExportInv == (Export /\ Done) => PrintT("CASE " \o ToJson([ plan |-> plan, size |-> size, result |-> result, status |-> status ]))
=============================================================================
