SPECIFICATION Spec
CONSTANTS Cap = 2 Sizes = {1, 3} Plans = {"absent", "ok", "fail_after_read", "fail_no_read", "killed", "empty", "garbage_no_read", "garbage_after_read"} Tolerant = FALSE Export = FALSE
INVARIANTS Safe FormattedOnlyIfComplete ExportInv
PROPERTIES Returns
