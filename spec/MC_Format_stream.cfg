SPECIFICATION Spec
CONSTANTS Cap = 2 Sizes = {7} Plans = {"stream"} Tolerant = TRUE Export = FALSE
INVARIANTS Safe FormattedOnlyIfComplete ExportInv
PROPERTIES Returns
