SPECIFICATION Spec
CONSTANTS GateBefore = "bind_group_data"
INVARIANTS ParseGate ValidationGate NoPanicOnRejected OkOnlyIfAccepted TraceShape
CHECK_DEADLOCK FALSE
