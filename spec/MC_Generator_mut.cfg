SPECIFICATION Spec
CONSTANTS GateBefore = "stages"
INVARIANTS ParseGate ValidationGate NoPanicOnRejected OkOnlyIfAccepted TraceShape
CHECK_DEADLOCK FALSE
