SPECIFICATION Spec
CONSTANTS Callers = {1, 2} NSteps = 7 Inputs = {1, 2} Leak = 0 Export = TRUE
INVARIANTS Pure NoSharedState ExportInv
CHECK_DEADLOCK FALSE
