---------------------------- MODULE MC_History ----------------------------
EXTENDS History, TLC, Json
CONSTANTS Export
ExportInv == (Export /\ AllDone) => PrintT("CASE " \o ToJson([ schedule |-> sched ]))
(* one input assignment is enough for the export: schedules do not depend on inputs *)
=============================================================================
