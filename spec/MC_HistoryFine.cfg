SPECIFICATION Spec
CONSTANTS Callers = {1, 2, 3} Depth = 3 Limit = 5 SharedCounter = FALSE
INVARIANTS TypeOK CounterIsSum Pure
PROPERTIES Terminates
CHECK_DEADLOCK FALSE
