SPECIFICATION Spec
CONSTANTS Callers = {1, 2, 3} Depth = 3 Limit = 5 SharedCounter = TRUE
INVARIANTS TypeOK CounterIsSum Pure
CHECK_DEADLOCK FALSE
