SPECIFICATION Spec
CONSTANTS Callers = {1, 2} Depth = 3 Limit = 6 SharedCounter = TRUE
INVARIANTS TypeOK CounterIsSum Pure
PROPERTIES Terminates
CHECK_DEADLOCK FALSE
