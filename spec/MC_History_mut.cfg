SPECIFICATION Spec
CONSTANTS Callers = {1, 2} NSteps = 7 Inputs = {1, 2} Leak = 5 Export = FALSE
INVARIANTS Pure ExportInv
CHECK_DEADLOCK FALSE
