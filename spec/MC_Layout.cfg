SPECIFICATION Spec
CONSTANTS Mode = "pairs" Export = TRUE
INVARIANTS LayoutInv ExportInv
CHECK_DEADLOCK FALSE
