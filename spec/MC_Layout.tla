---------------------------- MODULE MC_Layout ----------------------------
(* Bounded enumeration of host-shareable struct definitions over the complete leaf table    *)
(* (scalars, vec2-4, all 9 matrix shapes in f32 and f64, atomics), fixed arrays, one level  *)
(* of nesting and vec3-then-scalar packing. Checks sanity theorems of Layout.tla and        *)
(* exports every struct for replay into the real generator.                                  *)
EXTENDS Layout, TLC, Json

CONSTANTS Mode, Export   \* Mode: "pairs" | "triples" | "arrays"

VARIABLES S
vars == <<S>>

Sc(s) == [ k |-> "scalar", s |-> s ]
Vc(n, s) == [ k |-> "vec", n |-> n, s |-> s ]
Mt(c, r, s) == [ k |-> "mat", c |-> c, r |-> r, s |-> s ]
Scalars == { Sc(s) : s \in {"f32", "i32", "u32", "f64"} }
Vecs == { Vc(n, s) : n \in 2 .. 4, s \in {"f32", "i32", "u32", "f64"} }
Mats == { Mt(c, r, s) : c \in 2 .. 4, r \in 2 .. 4, s \in {"f32", "f64"} }
Atomics == { [ k |-> "atomic", s |-> s ] : s \in {"u32", "i32"} }
Leaves == Scalars \cup Vecs \cup Mats \cup Atomics
Small == { Sc("f32"), Vc(2, "f32"), Vc(3, "f32"), Vc(4, "f32"), Mt(3, 3, "f32"), Mt(2, 2, "f32"), Sc("f64"), Vc(3, "f64"), Vc(3, "u32") }
Arr(n, t) == [ k |-> "array", n |-> n, e |-> t ]
InnerRef == [ k |-> "struct", name |-> "Inner" ]

GlamLeaves == { Sc(s) : s \in {"f32", "i32", "u32"} } \cup { Vc(n, s) : n \in 2 .. 4, s \in {"f32", "i32", "u32"} } \cup { Mt(n, n, "f32") : n \in 2 .. 4 }
Rt(t) == [ k |-> "rtarray", e |-> t ]
MemberSeqs ==
  CASE Mode = "glam" -> { << a, b >> : a \in GlamLeaves, b \in GlamLeaves }
                        \cup { << Arr(n, a), Sc("f32") >> : n \in 1 .. 3, a \in GlamLeaves }
                        \cup { << Arr(2, Arr(3, a)), Vc(3, "f32"), Sc("u32") >> : a \in GlamLeaves }
                        \cup { << a, InnerRef, b >> : a \in GlamLeaves, b \in {Sc("f32"), Vc(3, "f32")} }
                        \cup { << Arr(3, InnerRef), a >> : a \in GlamLeaves }
    [] Mode = "rt" -> { << a, Rt(b) >> : a \in {Sc("u32"), Vc(3, "f32"), Vc(4, "f32")}, b \in GlamLeaves \cup {InnerRef, Arr(2, Vc(3, "f32"))} }
    [] Mode = "pairs" -> { << a, b >> : a \in Leaves, b \in Leaves }
    [] Mode = "triples" -> { << a, b, c >> : a \in Small, b \in Small, c \in Small }
    [] OTHER -> { << Arr(n, a), Sc("f32") >> : n \in 1 .. 3, a \in Leaves }
                \cup { << Arr(2, Arr(3, a)), Vc(3, "f32") >> : a \in Small }
                \cup { << a, InnerRef, b >> : a \in Small, b \in {Sc("f32"), Vc(4, "f32")} }
                \cup { << Arr(2, InnerRef), a >> : a \in Small }

MkS(ms) ==
  [ consts |-> << >>, overrides |-> << >>, functions |-> << >>,
    structs |-> << [ name |-> "Inner", members |-> << [ name |-> "v", ty |-> Vc(3, "f32") ], [ name |-> "w", ty |-> Sc("f32") ] >> ],
                   [ name |-> "Data", members |-> [ i \in DOMAIN ms |-> [ name |-> "m" \o ToString(i), ty |-> ms[i] ] ] ] >>,
    globals |-> << [ name |-> "data", space |-> "storage_rw", group |-> "0", binding |-> "0", gr |-> 0, br |-> 0, ty |-> [ k |-> "struct", name |-> "Data" ] ],
                   [ name |-> "inner", space |-> "storage_r", group |-> "0", binding |-> "1", gr |-> 0, br |-> 1, ty |-> InnerRef ] >>,
    entries |-> << [ name |-> "main", stage |-> "compute", params |-> << >>, wg |-> << "1" >>,
                     body |-> << [ k |-> "access", g |-> "data", how |-> "load" ] >> ] >> ]

Init == \E ms \in MemberSeqs : S = MkS(ms)
Next == UNCHANGED S
Spec == Init /\ [][Next]_vars

(* sanity theorems of the layout rules *)
Offs == MemberOffsets(S, "Data")
Ms == StructDef(S, "Data").members
LayoutInv ==
  /\ Offs[1] = 0
  /\ \A i \in DOMAIN Ms : Offs[i] % AlignOf(S, Ms[i].ty) = 0
  /\ \A i \in 1 .. (Len(Ms) - 1) : Offs[i] + SizeOf(S, Ms[i].ty) <= Offs[i + 1]
  /\ StructSize(S, "Data") % AlignOf(S, [ k |-> "struct", name |-> "Data" ]) = 0
  /\ Offs[Len(Ms)] + SizeOf(S, Ms[Len(Ms)].ty) <= StructSize(S, "Data")
  /\ StructSize(S, "Inner") = 16
ExportInv == Export => PrintT("CASE " \o ToJson([ S |-> S ]))
=============================================================================
