SPECIFICATION Spec
CONSTANTS NG = 2 Passes = {"compute", "render", "bundle"} MaxOps = 4 Export = TRUE SetIndexOffset = 0
INVARIANTS OwnSlot ExportInv
CHECK_DEADLOCK FALSE
