---------------------------- MODULE MC_Runtime ----------------------------
(* The generated bind-group API as a state machine (system R): which groups have been built, *)
(* what is bound in which slot of which pass. TLC explores every operation sequence up to     *)
(* MaxOps over NG groups and the pass kinds, checks that a group only ever lands in its own   *)
(* slot, and exports each complete sequence for replay on the compiled module (recording      *)
(* device), where Runtime!RunFails judges the recorded calls.                                  *)
EXTENDS Integers, Sequences, FiniteSets, TLC, Json

CONSTANTS NG, Passes, MaxOps, Export, SetIndexOffset   \* SetIndexOffset # 0: self-test mutant (set binds at index g + offset)

VARIABLES made, slots, ops
vars == <<made, slots, ops>>

Groups == 0 .. (NG - 1)
Init == made = {} /\ slots = [ p \in Passes |-> [ i \in Groups |-> -1 ] ] /\ ops = << >>

Op(name, arg) == [ op |-> name, arg |-> arg ]
GetLayout(g) == ops' = Append(ops, Op("get_layout", ToString(g))) /\ UNCHANGED <<made, slots>>
FromBindings(g) == made' = made \cup {g} /\ ops' = Append(ops, Op("from_bindings", ToString(g))) /\ UNCHANGED slots
Bind(sl, g) == [ sl EXCEPT ![(g + SetIndexOffset) % NG] = g ]
Set(g, p) == g \in made /\ slots' = [ slots EXCEPT ![p] = Bind(@, g) ] /\ ops' = Append(ops, Op("set", ToString(g) \o "@" \o p)) /\ UNCHANGED made
RECURSIVE BindAll(_, _)
BindAll(sl, gs) == IF gs = {} THEN sl ELSE LET g == CHOOSE x \in gs : \A y \in gs : x <= y IN BindAll(Bind(sl, g), gs \ {g})
SetAll(name, p) == made = Groups /\ slots' = [ slots EXCEPT ![p] = BindAll(@, Groups) ] /\ ops' = Append(ops, Op(name, p)) /\ UNCHANGED made
CreatePipelineLayout == ops' = Append(ops, Op("create_pipeline_layout", "")) /\ UNCHANGED <<made, slots>>

Next == /\ Len(ops) < MaxOps
        /\ \/ \E g \in Groups : GetLayout(g) \/ FromBindings(g) \/ (\E p \in Passes : Set(g, p))
           \/ \E p \in Passes : SetAll("set_bind_groups", p) \/ SetAll("bind_groups_set", p)
           \/ CreatePipelineLayout
Spec == Init /\ [][Next]_vars

(* C04: a group is only ever bound at its own index *)
OwnSlot == \A p \in Passes : \A i \in Groups : slots[p][i] \in {-1, i}
ExportInv == (Export /\ Len(ops) = MaxOps) => PrintT("CASE " \o ToJson([ ops |-> ops ]))
=============================================================================
