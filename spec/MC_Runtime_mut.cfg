SPECIFICATION Spec
CONSTANTS NG = 2 Passes = {"compute", "render", "bundle"} MaxOps = 4 Export = FALSE SetIndexOffset = 1
INVARIANTS OwnSlot ExportInv
CHECK_DEADLOCK FALSE
