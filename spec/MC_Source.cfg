SPECIFICATION Spec
CONSTANTS MaxLen = 3 Export = TRUE EscapeQuote = TRUE
INVARIANTS RoundTripInv ExportInv
CHECK_DEADLOCK FALSE
