----------------------------- MODULE MC_Source -----------------------------
EXTENDS Source, Json
CONSTANTS MaxLen, Export
VARIABLES s
Init == s \in UNION { [ 1 .. n -> Classes ] : n \in 0 .. MaxLen }
Next == UNCHANGED s
Spec == Init /\ [][Next]_s
RoundTripInv == RoundTrip(s)
ExportInv == Export => PrintT("CASE " \o ToJson([ classes |-> s ]))
=============================================================================
