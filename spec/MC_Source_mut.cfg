SPECIFICATION Spec
CONSTANTS MaxLen = 3 Export = FALSE EscapeQuote = FALSE
INVARIANTS RoundTripInv ExportInv
CHECK_DEADLOCK FALSE
