SPECIFICATION Spec
CONSTANTS NH = 2 NE = 1 NG = 2 StageChoices = {"vertex", "fragment", "compute"} Memo = FALSE
  Handled = {"Block", "IfAccept", "IfReject", "Switch", "LoopBody", "LoopContinuing"} ArenaCalls_ = TRUE Export = TRUE CheckWork = FALSE
INVARIANTS VisInv SoundInv RunInv ExportInv WorkInv
CHECK_DEADLOCK FALSE
