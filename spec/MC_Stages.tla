---------------------------- MODULE MC_Stages ----------------------------
(* Bounded exhaustive exploration of the stage analysis over all call-graph shapes with    *)
(* NH helpers (a DAG: helper i may call helper j > i), NE entry points and the globals G.  *)
EXTENDS Stages, TLC, Json

CONSTANTS NH, NE, NG, StageChoices, Memo, Handled, ArenaCalls_, Export, CheckWork

VARIABLES S, st
vars == <<S, st>>
P == [ handled |-> Handled, arenaCalls |-> ArenaCalls_, memo |-> Memo ]

HName(i) == "h" \o ToString(i)
GName(i) == "g" \o ToString(i)
GSet == { GName(i) : i \in 0 .. (NG - 1) }
GlobalRec(i) == [ name |-> GName(i), space |-> "storage_rw", group |-> "0", binding |-> ToString(i), gr |-> 0, br |-> i,
                  ty |-> [k |-> "array", n |-> 4, e |-> [k |-> "scalar", s |-> "u32"]] ]
AccNode(g) == [ k |-> "access", g |-> g, how |-> "store" ]
CallNode(f) == [ k |-> "call", f |-> f, expr |-> FALSE ]
SetToSeq(X) == LET RECURSIVE F(_) F(Y) == IF Y = {} THEN << >> ELSE LET y == CHOOSE z \in Y : \A w \in Y : z <= w IN << y >> \o F(Y \ {y}) IN F(X)
SeqMap(s, Op(_)) == [ i \in DOMAIN s |-> Op(s[i]) ]
Body(acc, calls) == SeqMap(SetToSeq(acc), LAMBDA i : AccNode(GName(i))) \o SeqMap(SetToSeq(calls), LAMBDA j : CallNode(HName(j)))

HelperChoices(i) == [ ret : BOOLEAN, acc : SUBSET (0 .. (NG - 1)), calls : SUBSET ((i + 1) .. (NH - 1)) ]
EntryChoices == [ stage : StageChoices, acc : SUBSET (0 .. (NG - 1)), calls : SUBSET (0 .. (NH - 1)) ]

MkS(hs, es) ==
  [ structs |-> << >>, consts |-> << >>, overrides |-> << >>,
    globals |-> [ i \in 1 .. NG |-> GlobalRec(i - 1) ],
    functions |-> [ i \in 1 .. NH |-> [ name |-> HName(i - 1), ret |-> hs[i].ret, body |-> Body(hs[i].acc, hs[i].calls) ] ],
    entries |-> [ i \in 1 .. NE |-> [ name |-> "e" \o ToString(i - 1), stage |-> es[i].stage, params |-> << >>, wg |-> << >>,
                                      body |-> Body(es[i].acc, es[i].calls) ] ] ]

Init == /\ \E hs \in [ 1 .. NH -> UNION { HelperChoices(i) : i \in 0 .. (NH - 1) } ] :
             /\ \A i \in 1 .. NH : hs[i] \in HelperChoices(i - 1)
             /\ \E es \in [ 1 .. NE -> EntryChoices ] : S = MkS(hs, es)
        /\ st = StInit(S)

Start == CanStart(S, st) /\ st' = StartEntry(S, st, P) /\ UNCHANGED S
Walk == CanWalk(st) /\ st' = WalkCallee(S, st, P) /\ UNCHANGED S
Next == Start \/ Walk
Spec == Init /\ [][Next]_vars

Done == Finished(S, st)
VisInv == Done => MarksAreVis(S, st)
WorkInv == CheckWork => WorkBounded(S, st)
SoundInv == \A g \in DOMAIN st.marks : st.marks[g] \subseteq Vis(S, g)
RunInv == Done => Run(S, StInit(S), P).marks = st.marks
ExportInv == (Export /\ st.ei = 0 /\ st.stack = << >>) => PrintT("CASE " \o ToJson([ S |-> S ]))
=============================================================================
