-------------------------- MODULE MC_StagesCtx --------------------------
(* Context slice: one helper that accesses the global at every context path of depth <= DA, *)
(* called from one entry point at every context path of depth <= DC.                        *)
EXTENDS Stages, TLC, Json

CONSTANTS Ctxs, DA, DC, StageChoices, Memo, Handled, ArenaCalls_, Export

VARIABLES S, st
vars == <<S, st>>
P == [ handled |-> Handled, arenaCalls |-> ArenaCalls_, memo |-> Memo ]

Paths(d) == UNION { [1 .. n -> Ctxs] : n \in 0 .. d }
RECURSIVE Wrap(_, _)
Wrap(path, node) == IF path = << >> THEN node
                    ELSE [ k |-> "block", ctx |-> Head(path), items |-> << Wrap(Tail(path), node) >> ]
G0 == [ name |-> "g0", space |-> "storage_rw", group |-> "0", binding |-> "0", gr |-> 0, br |-> 0,
        ty |-> [k |-> "array", n |-> 4, e |-> [k |-> "scalar", s |-> "u32"]] ]
MkS(pa, pc, ret, stage) ==
  [ structs |-> << >>, consts |-> << >>, overrides |-> << >>, globals |-> << G0 >>,
    functions |-> << [ name |-> "h0", ret |-> ret, body |-> << Wrap(pa, [k |-> "access", g |-> "g0", how |-> "store"]) >> ] >>,
    entries |-> << [ name |-> "e0", stage |-> stage, params |-> << >>, wg |-> << >>,
                     body |-> << Wrap(pc, [k |-> "call", f |-> "h0", expr |-> ret]) >> ] >> ]

Init == /\ \E pa \in Paths(DA), pc \in Paths(DC), ret \in BOOLEAN, stage \in StageChoices : S = MkS(pa, pc, ret, stage)
        /\ st = StInit(S)
Start == CanStart(S, st) /\ st' = StartEntry(S, st, P) /\ UNCHANGED S
Walk == CanWalk(st) /\ st' = WalkCallee(S, st, P) /\ UNCHANGED S
Next == Start \/ Walk
Spec == Init /\ [][Next]_vars
Done == Finished(S, st)
VisInv == Done => MarksAreVis(S, st)
SoundInv == \A g \in DOMAIN st.marks : st.marks[g] \subseteq Vis(S, g)
ExportInv == (Export /\ st.ei = 0 /\ st.stack = << >>) => PrintT("CASE " \o ToJson([ S |-> S ]))
=============================================================================
