SPECIFICATION Spec
CONSTANTS Ctxs = {"plain", "if_accept", "if_reject", "if_else_if", "switch_case", "switch_default", "loop_body", "loop_continuing", "for_body", "while_body"}
  DA = 1 DC = 2 StageChoices = {"vertex", "fragment", "compute"} Memo = FALSE
  Handled = {"Block", "IfAccept", "IfReject", "Switch", "LoopBody"} ArenaCalls_ = TRUE Export = FALSE
INVARIANTS VisInv SoundInv ExportInv
CHECK_DEADLOCK FALSE
