SPECIFICATION Spec
CONSTANTS NS = 2 NGl = 1 Early = FALSE Export = TRUE CheckWork = FALSE
  Spaces = {"uniform", "storage_r", "storage_rw", "private", "workgroup", "push"}
INVARIANTS ClosureInv WorkInv EmitInv ExportInv
CHECK_DEADLOCK FALSE
