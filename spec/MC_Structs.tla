---------------------------- MODULE MC_Structs ----------------------------
(* Bounded enumeration of struct roles: which structs are reachable from module-scope       *)
(* variables (through members, arrays, arrays of arrays, runtime arrays) and which are      *)
(* entry-point parameters / results. Checks the type-closure algorithm against HostReach    *)
(* and its work bound, and exports every shader for replay into the real generator.         *)
EXTENDS TypeClosure, TLC, Json

CONSTANTS NS, NGl, Early, Export, CheckWork, Spaces

VARIABLES S
vars == <<S>>

F32 == [ k |-> "scalar", s |-> "f32" ]
V4 == [ k |-> "vec", n |-> 4, s |-> "f32" ]
TName(i) == "T" \o ToString(i)
TRef(i) == [ k |-> "struct", name |-> TName(i) ]
Arr(t) == [ k |-> "array", n |-> 2, e |-> t ]
Rt(t) == [ k |-> "rtarray", e |-> t ]

FlatMembers(withPos) ==
  (IF withPos THEN << [ name |-> "pos", ty |-> V4, io |-> [ k |-> "builtin", b |-> "position" ] ] >> ELSE << >>)
  \o << [ name |-> "a", ty |-> F32, io |-> [ k |-> "loc", n |-> 0 ] ], [ name |-> "b", ty |-> V4, io |-> [ k |-> "loc", n |-> 1 ] ] >>
Kinds == {"flat", "flatpos", "nest", "arr", "arr2", "rt", "twice"}
Members(kind, j) ==
  CASE kind = "flat" -> FlatMembers(FALSE)
    [] kind = "flatpos" -> FlatMembers(TRUE)
    [] kind = "nest" -> << [ name |-> "x", ty |-> V4 ], [ name |-> "inner", ty |-> TRef(j) ] >>
    [] kind = "arr" -> << [ name |-> "x", ty |-> V4 ], [ name |-> "items", ty |-> Arr(TRef(j)) ] >>
    [] kind = "arr2" -> << [ name |-> "x", ty |-> V4 ], [ name |-> "grid", ty |-> Arr(Arr(TRef(j))) ] >>
    [] kind = "twice" -> << [ name |-> "p", ty |-> TRef(j) ], [ name |-> "q", ty |-> TRef(j) ] >>
    [] OTHER -> << [ name |-> "n", ty |-> V4 ], [ name |-> "tail", ty |-> Rt(TRef(j)) ] >>

StructChoice(i) == IF i = 0 THEN { [ kind |-> k, j |-> 0 ] : k \in {"flat", "flatpos"} }
                   ELSE { [ kind |-> k, j |-> j ] : k \in Kinds, j \in 0 .. (i - 1) }
GlobalShapes == {"self", "arr", "rt"}
GlobalChoice == { [ space |-> "none", i |-> 0, shape |-> "self" ] }
                \cup { [ space |-> sp, i |-> i, shape |-> sh ] : sp \in Spaces, i \in 0 .. (NS - 1), sh \in GlobalShapes }
GTy(c) == CASE c.shape = "self" -> TRef(c.i) [] c.shape = "arr" -> Arr(TRef(c.i)) [] OTHER -> Rt(TRef(c.i))
IoChoice == { -1 } \cup (0 .. (NS - 1))

MkGlobals(gc) ==
  LET keep == SelectSeq([ q \in 1 .. NGl |-> [ c |-> gc[q], q |-> q ] ], LAMBDA x : x.c.space # "none")
  IN [ q \in DOMAIN keep |->
       IF keep[q].c.space \in {"uniform", "storage_r", "storage_rw"}
       THEN [ name |-> "v" \o ToString(keep[q].q), space |-> keep[q].c.space, group |-> "0", binding |-> ToString(keep[q].q), gr |-> 0, br |-> keep[q].q, ty |-> GTy(keep[q].c) ]
       ELSE [ name |-> "v" \o ToString(keep[q].q), space |-> keep[q].c.space, gr |-> 0, br |-> 0, ty |-> GTy(keep[q].c) ] ]

Params(p) == IF p < 0 THEN << >> ELSE << [ k |-> "struct", name |-> "input", ty |-> TName(p) ] >>
MkS(sc, gc, vp, vr, fp, fr) ==
  [ consts |-> << >>, overrides |-> << >>, functions |-> << >>,
    structs |-> [ i \in 1 .. NS |-> [ name |-> TName(i - 1), members |-> Members(sc[i].kind, sc[i].j) ] ],
    globals |-> MkGlobals(gc),
    entries |-> << IF vr < 0 THEN [ name |-> "vs_main", stage |-> "vertex", params |-> Params(vp), body |-> << >>, wg |-> << >> ]
                   ELSE [ name |-> "vs_main", stage |-> "vertex", params |-> Params(vp), body |-> << >>, wg |-> << >>, result |-> [ k |-> "struct", ty |-> TName(vr) ] ],
                   IF fr < 0 THEN [ name |-> "fs_main", stage |-> "fragment", params |-> Params(fp), body |-> << >>, wg |-> << >> ]
                   ELSE [ name |-> "fs_main", stage |-> "fragment", params |-> Params(fp), body |-> << >>, wg |-> << >>, result |-> [ k |-> "struct", ty |-> TName(fr) ] ] >> ]

Init == \E sc \in [ 1 .. NS -> UNION { StructChoice(i) : i \in 0 .. (NS - 1) } ] :
          /\ \A i \in 1 .. NS : sc[i] \in StructChoice(i - 1)
          /\ \E gc \in [ 1 .. NGl -> GlobalChoice ], vp \in IoChoice, vr \in IoChoice, fp \in IoChoice, fr \in IoChoice :
               \* entry-point IO structs must be flat (WGSL); a vertex result needs a position, a vertex
               \* parameter and a fragment result must not have one
               /\ \A x \in {vp, fr} : x >= 0 => sc[x + 1].kind = "flat"
               /\ vr >= 0 => sc[vr + 1].kind = "flatpos"
               /\ fp >= 0 => sc[fp + 1].kind \in {"flat", "flatpos"}
               /\ S = MkS(sc, gc, vp, vr, fp, fr)
Next == UNCHANGED S
Spec == Init /\ [][Next]_vars

ClosureInv == ClosureIsHostReach(S, Early)
WorkInv == CheckWork => RunClosure(S, Early).work <= ClosureBound(S)
EmitInv == Emit(S) \subseteq StructNames(S) /\ HostReach(S) \subseteq Emit(S)
ExportInv == Export => PrintT("CASE " \o ToJson([ S |-> S ]))
=============================================================================
