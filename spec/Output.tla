------------------------------ MODULE Output ------------------------------
(* The whole generated module as a function of the abstract shader and the options, at the  *)
(* level of the static projection: which items exist in which order (the sections of         *)
(* lib.rs:create_shader_module_inner), what every struct, bind group, entry helper and       *)
(* constant looks like. This composes Structs, RustTypes, Bindings, Entries and Consts into  *)
(* one functional model; the conformance engine compares it with the real output (DRIFT).    *)
EXTENDS Structs, TLC

B == INSTANCE Bindings
E == INSTANCE Entries
C == INSTANCE Consts
R == INSTANCE RustTypes

SeqOfSet(f, s) == [ i \in DOMAIN s |-> f[s[i]] ]
(* The front end lowers the module-scope declarations in source order but a declaration's dependencies first (WGSL allows use before *)
(* declaration), so the type arena - and with it the order of the emitted structs - is the depth-first post-order over `alias` and       *)
(* `struct` declarations: a struct declared later is pulled forward by the first alias or member that mentions it.                       *)
RECURSIVE VisitTy(_, _, _), VisitStruct(_, _, _), VisitMembers(_, _, _, _)
VisitTy(S, t, acc) ==
  CASE t.k = "struct" -> VisitStruct(S, t.name, acc)
    [] t.k \in {"array", "rtarray"} -> VisitTy(S, t.e, acc)
    [] OTHER -> acc
VisitMembers(S, ms, i, acc) == IF i > Len(ms) THEN acc ELSE VisitMembers(S, ms, i + 1, VisitTy(S, ms[i].ty, acc))
VisitStruct(S, n, acc) ==
  IF n \in Range(acc) THEN acc ELSE Append(VisitMembers(S, StructDef(S, n).members, 1, acc), n)
RECURSIVE LowerAliases(_, _, _), LowerStructs(_, _, _)
LowerAliases(S, i, acc) == IF ~Has(S, "aliases") \/ i > Len(S.aliases) THEN acc ELSE LowerAliases(S, i + 1, VisitTy(S, S.aliases[i].ty, acc))
LowerStructs(S, i, acc) == IF i > Len(S.structs) THEN acc ELSE LowerStructs(S, i + 1, VisitStruct(S, S.structs[i].name, acc))
LoweringOrder(S) == LowerStructs(S, 1, LowerAliases(S, 1, << >>))
EmittedStructs(S) == LET names == SelectSeq(LoweringOrder(S), LAMBDA n : n \in Emit(S)) IN [ i \in DOMAIN names |-> StructDef(S, names[i]) ]

(* derive list in the order the generator pushes it *)
DeriveSeq(S, n, o) ==
  << "Debug" >> \o (IF HasRts(S, n) THEN << >> ELSE << "Copy" >>) \o << "Clone", "PartialEq" >>
  \o (IF (o.bmv /\ ~HostShareable(S, n)) \/ (o.bmh /\ HostShareable(S, n)) THEN << "bytemuck::Pod", "bytemuck::Zeroable" >> ELSE << >>)
  \o (IF o.enc /\ HostShareable(S, n) THEN << "encase::ShaderType" >> ELSE << >>)
  \o (IF o.serde THEN << "serde::Serialize", "serde::Deserialize" >> ELSE << >>)

(* the exact flattened Rust type of a value type under a representation *)
GlamLeaf(t) ==
  CASE t.k = "vec" -> (CASE t.s = "f32" -> "Vec" [] t.s = "f64" -> "DVec" [] t.s = "u32" -> "UVec" [] OTHER -> "IVec") \o ToString(t.n)
    [] OTHER -> (IF t.s = "f32" THEN "Mat" ELSE "DMat") \o ToString(t.c)
ExpectedFlat(t, mv) ==
  LET w == R!Unwrap(t)
      l == w.leaf IN
  CASE l.k = "struct" -> [ dims |-> w.arrs, leaf |-> [ fam |-> "struct", name |-> l.name ] ]
    [] l.k \in {"scalar", "atomic"} -> [ dims |-> w.arrs, leaf |-> [ fam |-> "prim", s |-> l.s ] ]
    [] mv = "glam" /\ R!GlamHas(l) -> [ dims |-> w.arrs, leaf |-> [ fam |-> "glam", name |-> GlamLeaf(l) ] ]
    [] mv = "nalgebra" -> [ dims |-> w.arrs,
                            leaf |-> IF l.k = "vec" THEN [ fam |-> "nalgebra", name |-> "SVector", s |-> l.s, dims |-> << l.n >> ]
                                     ELSE [ fam |-> "nalgebra", name |-> "SMatrix", s |-> l.s, dims |-> << l.r, l.c >> ] ]
    [] l.k = "vec" -> [ dims |-> w.arrs \o << l.n >>, leaf |-> [ fam |-> "prim", s |-> l.s ] ]
    [] OTHER -> [ dims |-> w.arrs \o << l.r, l.c >>, leaf |-> [ fam |-> "prim", s |-> l.s ] ]   \* [[T; columns]; rows]
ExpectedField(m, mv) ==
  IF m.ty.k = "rtarray"
  THEN [ name |-> m.name, flat |-> [ dims |-> << >>, leaf |-> [ fam |-> "vec_of", inner |-> ExpectedFlat(m.ty.e, mv) ] ], attrs |-> << "size(runtime)" >> ]
  ELSE [ name |-> m.name, flat |-> ExpectedFlat(m.ty, mv), attrs |-> << >> ]
ExpectedStruct(S, n, o) ==
  [ name |-> n, derives |-> DeriveSeq(S, n, o), repr_c |-> ReprC(S, n),
    fields |-> [ i \in DOMAIN Fields(S, n) |-> ExpectedField(Fields(S, n)[i], o.mv) ],
    n_asserts |-> IF HasAsserts(S, n, o) THEN Len(Fields(S, n)) + 1 ELSE 0 ]

(* ---- item skeleton: the sections in the order of the final quote! ---- *)
RepeatItem(x, n) == [ i \in 1 .. n |-> x ]
StructItems(S, o) ==
  LET es == EmittedStructs(S)
      RECURSIVE F(_)
      F(i) == IF i > Len(es) THEN << >>
              ELSE << "struct " \o es[i].name >> \o RepeatItem("const _", IF HasAsserts(S, es[i].name, o) THEN Len(Fields(S, es[i].name)) + 1 ELSE 0) \o F(i + 1)
  IN F(1)
VertexInputStructs(S) ==
  UNION { { p.ty : p \in Range(E!StructParams(S.entries[i])) } : i \in { j \in DOMAIN S.entries : S.entries[j].stage = "vertex" } }
EntriesOfStage(S, st) == SelectSeq(S.entries, LAMBDA e : e.stage = st)
ExpectedItemsBefore(S, o, constNames) ==
  StructItems(S, o)
  \o [ i \in DOMAIN constNames |-> "const " \o constNames[i] ]
  \o (IF S.overrides # << >> THEN << "struct OverrideConstants", "impl OverrideConstants" >> ELSE << >>)
  \o (IF Resources(S) # << >> THEN << "mod bind_groups", "fn set_bind_groups" >> ELSE << >>)
ExpectedItemsAfter(S) ==
  (IF EntriesOfStage(S, "compute") # << >> THEN << "mod compute" >> ELSE << >>)
  \o [ i \in DOMAIN S.entries |-> "const ENTRY_" \o S.entries[i].upper ]
  \o (IF EntriesOfStage(S, "vertex") # << >>
      THEN << "struct VertexEntry", "fn vertex_state" >> \o [ i \in DOMAIN EntriesOfStage(S, "vertex") |-> "fn " \o EntriesOfStage(S, "vertex")[i].name \o "_entry" ] ELSE << >>)
  \o (IF EntriesOfStage(S, "fragment") # << >>
      THEN << "struct FragmentEntry", "fn fragment_state" >> \o [ i \in DOMAIN EntriesOfStage(S, "fragment") |-> "fn " \o EntriesOfStage(S, "fragment")[i].name \o "_entry" ] ELSE << >>)
  \o << "const SOURCE", "fn create_shader_module" >>
  \o (IF PushGlobals(S) # << >> THEN << "const PUSH_CONSTANT_STAGES" >> ELSE << >>)
  \o << "fn create_pipeline_layout" >>
(* the vertex `impl` blocks sit between the two halves, sorted by name (compared as a set) *)
ItemsOk(S, o, constNames, items) ==
  LET a == ExpectedItemsBefore(S, o, constNames)
      b == ExpectedItemsAfter(S)
      nv == Cardinality(VertexInputStructs(S))
  IN /\ Len(items) = Len(a) + nv + Len(b)
     /\ SubSeq(items, 1, Len(a)) = a
     /\ { items[i] : i \in (Len(a) + 1) .. (Len(a) + nv) } = { "impl " \o n : n \in VertexInputStructs(S) }
     /\ SubSeq(items, Len(a) + nv + 1, Len(items)) = b

(* ---- bind groups ---- *)
GroupVarsOf(S, g) == SelectSeq(Resources(S), LAMBDA r : r.group = g)
KindOf(g) == CASE g.ty.k = "sampler" -> "sampler" [] g.ty.k = "tex" -> "texture" [] OTHER -> "buffer"
ExpectedGroup(S, g) ==
  [ no |-> g,
    fields |-> [ i \in DOMAIN GroupVarsOf(S, g) |-> [ name |-> GroupVarsOf(S, g)[i].name, kind |-> KindOf(GroupVarsOf(S, g)[i]) ] ],
    entries |-> [ i \in DOMAIN GroupVarsOf(S, g) |-> [ binding |-> GroupVarsOf(S, g)[i].binding, vis |-> Vis(S, GroupVarsOf(S, g)[i].name), ty |-> B!GenEntryTy(GroupVarsOf(S, g)[i]) ] ],
    layout_label |-> "LayoutDescriptor" \o g, group_label |-> "BindGroup" \o g, set_index |-> g ]

(* ---- constants, compute module, vertex impls, pipeline layout ---- *)
ExpectedOverrideFields(S) == [ i \in DOMAIN S.overrides |-> [ name |-> S.overrides[i].name, ty |-> C!FieldType(S.overrides[i]) ] ]
ExpectedCompute(S) ==
  [ i \in DOMAIN EntriesOfStage(S, "compute") |->
      [ wg_const |-> EntriesOfStage(S, "compute")[i].upper \o "_WORKGROUP_SIZE",
        ctor |-> "create_" \o EntriesOfStage(S, "compute")[i].name \o "_pipeline",
        label |-> "Compute Pipeline " \o EntriesOfStage(S, "compute")[i].name,
        entry |-> EntriesOfStage(S, "compute")[i].name ] ]
ExpectedEntryConsts(S) == [ i \in DOMAIN S.entries |-> [ const |-> "ENTRY_" \o S.entries[i].upper, value |-> S.entries[i].name ] ]
ExpectedVertexImpl(S, n) ==
  LET ms == E!LocMembers(S, n) IN
  [ name |-> n, count |-> "[wgpu::VertexAttribute;" \o ToString(Len(ms)) \o "]",
    attrs |-> [ i \in DOMAIN ms |-> [ format |-> E!VertexFormatOf(ms[i].ty), location |-> ToString(ms[i].io.n), offset_struct |-> n, offset_field |-> ms[i].name ] ] ]
ExpectedPipelineBgls(S, order) == [ i \in DOMAIN order |-> "bind_groups::BindGroup" \o order[i] \o "::get_bind_group_layout" ]

(* ---- entry helpers ---- *)
VertexEntryParams(S, e) ==
  [ i \in DOMAIN E!StructParams(e) |-> StructDef(S, E!StructParams(e)[i].ty).snake ] \o (IF S.overrides # << >> THEN << "overrides" >> ELSE << >>)
=============================================================================
