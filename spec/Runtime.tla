----------------------------- MODULE Runtime -----------------------------
(* The generated bind-group API as a state machine over a recording device (C04).           *)
(* An operation (get_layout g, from_bindings g, set g on pass p, set_bind_groups p,          *)
(* BindGroups::set p, create_pipeline_layout) must produce exactly the device / pass calls   *)
(* below. The recorded run of a probe is a sequence of operation markers each followed by    *)
(* the calls the shim recorded; RunOk folds the specification over it.                       *)
EXTENDS Shader, TLC

KindOf(g) == CASE g.ty.k = "sampler" -> "sampler" [] g.ty.k = "tex" -> "texture" [] OTHER -> "buffer"
GroupNos(S) == { Resources(S)[i].group : i \in DOMAIN Resources(S) }
GroupVars(S, g) == SelectSeq(Resources(S), LAMBDA r : r.group = g)
(* group numbers in index order; they are decimal strings of small naturals here *)
Digit(c) == CASE c = "0" -> 0 [] c = "1" -> 1 [] c = "2" -> 2 [] c = "3" -> 3 [] c = "4" -> 4 [] c = "5" -> 5 [] c = "6" -> 6 [] c = "7" -> 7 [] c = "8" -> 8 [] OTHER -> 9
NumOf == [ s \in { ToString(i) : i \in 0 .. 31 } |-> CHOOSE i \in 0 .. 31 : ToString(i) = s ]
GroupOrder(S) == LET n == Cardinality(GroupNos(S)) IN [ i \in 1 .. n |-> CHOOSE g \in GroupNos(S) : g \in DOMAIN NumOf /\ NumOf[g] = i - 1 ]

(* ---- segmentation of the recorded run: << [op, arg, evs] >> ---- *)
RECURSIVE Segs(_, _, _)
Segs(evs, i, acc) ==
  IF i > Len(evs) THEN acc
  ELSE LET e == evs[i] IN
    IF e.ev = "rt.op" THEN Segs(evs, i + 1, Append(acc, [ op |-> e.op, arg |-> e.arg, evs |-> << >> ]))
    ELSE IF acc = << >> THEN Segs(evs, i + 1, acc)
    ELSE Segs(evs, i + 1, [ acc EXCEPT ![Len(acc)].evs = Append(@, e) ])

Chk(ok, msg) == IF ok THEN {} ELSE {msg}
BindingsOf(entries) == [ i \in DOMAIN entries |-> entries[i].binding ]
ExpectedBindings(S, g) == [ i \in DOMAIN GroupVars(S, g) |-> GroupVars(S, g)[i].binding ]
IsBgl(S, e, g) == e.ev = "rt.create_bgl" /\ Range(BindingsOf(e.entries)) = Range(ExpectedBindings(S, g)) /\ Len(e.entries) = Len(GroupVars(S, g))

(* st = [ bg : group -> bind group id, tok : group -> seq of [name, kind, id, offset] ] *)
TokenOf(st, g, name) == LET t == st.tok[g] IN t[CHOOSE i \in DOMAIN t : t[i].name = name]
ResMatches(res, t) ==
  /\ res.k = t.kind /\ res.id = t.id
  /\ (t.kind = "buffer" => (res.offset = t.offset))

SegFails(S, st, seg) ==
  LET evs == seg.evs
      g == seg.arg
  IN
  CASE seg.op = "get_layout" ->
         LET calls == SelectSeq(evs, LAMBDA e : e.ev # "rt.tokens") IN
         Chk(Len(calls) = 1 /\ IsBgl(S, calls[1], g), "get_bind_group_layout of group " \o g \o " did not create exactly the layout of that group")
    [] seg.op = "from_bindings" ->
         (* the group's layout is created here (what the generator does) or one created earlier for the same group is reused *)
         LET n == Len(evs) IN
         IF ~(n \in {1, 2} /\ evs[n].ev = "rt.create_bind_group" /\ (n = 2 => IsBgl(S, evs[1], g)))
         THEN { "from_bindings of group " \o g \o " did not create one bind group (after at most the group's own layout)" }
         ELSE LET b == evs[n]
                  lay == IF n = 2 THEN evs[1] ELSE (CHOOSE x \in st.lay : TRUE)
                  known == { x.id : x \in { y \in st.lay : y.group = g } } \cup (IF n = 2 THEN { evs[1].id } ELSE {})
                  layBindings == IF n = 2 THEN BindingsOf(evs[1].entries) ELSE ExpectedBindings(S, g)
              IN
              Chk(b.layout \in known, "bind group " \o g \o " was not created with a layout of its own group")
              \cup Chk(Range(BindingsOf(b.entries)) = Range(layBindings) /\ Len(b.entries) = Len(layBindings),
                       "bind group " \o g \o " supplies bindings " \o ToString(BindingsOf(b.entries)) \o " but its layout has " \o ToString(layBindings))
              \cup UNION { LET r == GroupVars(S, g)[i]
                               m == { j \in DOMAIN b.entries : b.entries[j].binding = r.binding }
                           IN IF ~(g \in DOMAIN st.tok /\ \E k \in DOMAIN st.tok[g] : st.tok[g][k].name = r.name)
                              THEN { "the resource struct of group " \o g \o " has no field named after the variable " \o r.name }
                              ELSE
                              Chk(Cardinality(m) = 1 /\ (\A j \in m : ResMatches(b.entries[j].res, TokenOf(st, g, r.name))),
                                  "the value given in field " \o r.name \o " of group " \o g \o " did not reach @binding(" \o r.binding \o ")")
                           : i \in DOMAIN GroupVars(S, g) }
    [] seg.op = "set" ->
         Chk(g \in DOMAIN st.bg /\ Len(evs) = 1 /\ evs[1].ev = "rt.set_bind_group" /\ evs[1].index = g /\ evs[1].bg = st.bg[g] /\ evs[1].offsets = 0,
             "BindGroup" \o g \o "::set did not bind that group at index " \o g \o " exactly once")
    [] seg.op \in {"set_bind_groups", "bind_groups_set"} ->
         LET order == GroupOrder(S) IN
         Chk(Len(evs) = Len(order)
             /\ \A i \in DOMAIN evs : evs[i].ev = "rt.set_bind_group" /\ evs[i].pass = seg.arg /\ evs[i].index = order[i] /\ order[i] \in DOMAIN st.bg /\ evs[i].bg = st.bg[order[i]] /\ evs[i].offsets = 0,
             seg.op \o " on a " \o seg.arg \o " pass did not bind every group at its own index exactly once, in index order")
    [] seg.op = "create_pipeline_layout" ->
         LET order == GroupOrder(S)
             n == Len(order)
             bgls == SelectSeq(evs, LAMBDA e : e.ev = "rt.create_bgl")
             pls == SelectSeq(evs, LAMBDA e : e.ev = "rt.create_pipeline_layout")
             known(gg) == { x.id : x \in { y \in st.lay : y.group = gg } } \cup { e.id : e \in { x \in Range(bgls) : IsBgl(S, x, gg) } }
         IN
         Chk(Len(pls) = 1 /\ Len(evs) = Len(bgls) + 1 /\ evs[Len(evs)].ev = "rt.create_pipeline_layout"
             /\ Len(pls[1].bgls) = n /\ (\A i \in 1 .. n : pls[1].bgls[i] \in known(order[i])),
             "create_pipeline_layout does not list the group layouts in index order 0..n-1")
    [] OTHER -> {}

(* pass of a `set` segment: the pass kind is carried by the recorded call itself; every kind is exercised *)
NewLayouts(S, seg) ==
  IF seg.op \in {"get_layout", "from_bindings"}
  THEN { [ group |-> seg.arg, id |-> e.id ] : e \in { x \in Range(seg.evs) : x.ev = "rt.create_bgl" /\ IsBgl(S, x, seg.arg) } }
  ELSE {}
SegUpdate(S, st0, seg) ==
  LET st == [ st0 EXCEPT !.lay = st0.lay \cup NewLayouts(S, seg) ] IN
  IF seg.op = "from_bindings" /\ Len(seg.evs) \in {1, 2} /\ seg.evs[Len(seg.evs)].ev = "rt.create_bind_group"
  THEN [ st EXCEPT !.bg = [ x \in DOMAIN st.bg \cup {seg.arg} |-> IF x = seg.arg THEN seg.evs[Len(seg.evs)].id ELSE st.bg[x] ] ]
  ELSE LET t == SelectSeq(seg.evs, LAMBDA e : e.ev = "rt.tokens")
           gs == { t[i].group : i \in DOMAIN t } IN
       IF t = << >> THEN st
       ELSE [ st EXCEPT !.tok = [ x \in DOMAIN st.tok \cup gs |-> IF x \in gs THEN (CHOOSE y \in Range(t) : y.group = x).fields ELSE st.tok[x] ] ]

RECURSIVE Fold(_, _, _, _, _)
Fold(S, segs, i, st, fails) ==
  IF i > Len(segs) THEN fails
  ELSE LET st2 == SegUpdate(S, st, segs[i]) IN
       Fold(S, segs, i + 1, st2, fails \cup SegFails(S, st2, segs[i]))

RunFails(S, evs) == Fold(S, Segs(evs, 1, << >>), 1, [ bg |-> << >>, tok |-> << >>, lay |-> {} ], {})

(* the resource struct: exactly one field per variable of the group, named after it, typed by kind *)
FieldFails(S, evs) ==
  UNION { LET t == evs[i] IN
          IF t.ev # "rt.tokens" THEN {}
          ELSE Chk({ [ name |-> f.name, kind |-> f.kind ] : f \in Range(t.fields) } = { [ name |-> r.name, kind |-> KindOf(r) ] : r \in Range(GroupVars(S, t.group)) }
                   /\ Len(t.fields) = Len(GroupVars(S, t.group)),
                   "fields of BindGroupLayout" \o t.group \o " are not exactly the variables of that group with kind-typed fields")
          : i \in DOMAIN evs }
=============================================================================
