---------------------------- MODULE RustTypes ----------------------------
(* What a Rust field type denotes (scalar kind and width, element counts) and which family  *)
(* of types the selected representation prescribes (C06, C10): plain arrays, glam types     *)
(* with array fallback where glam has no equivalent, nalgebra types.                         *)
(* Observed types arrive flattened by the driver: [dims |-> outer-to-inner array lengths,   *)
(* leaf |-> [fam |-> "prim"|"glam"|"nalgebra"|"struct"|"vec_of"|"?", ...]].                   *)
EXTENDS Shader

GlamTable ==
  [ Vec2 |-> [s |-> "f32", d |-> <<2>>], Vec3 |-> [s |-> "f32", d |-> <<3>>], Vec4 |-> [s |-> "f32", d |-> <<4>>],
    DVec2 |-> [s |-> "f64", d |-> <<2>>], DVec3 |-> [s |-> "f64", d |-> <<3>>], DVec4 |-> [s |-> "f64", d |-> <<4>>],
    UVec2 |-> [s |-> "u32", d |-> <<2>>], UVec3 |-> [s |-> "u32", d |-> <<3>>], UVec4 |-> [s |-> "u32", d |-> <<4>>],
    IVec2 |-> [s |-> "i32", d |-> <<2>>], IVec3 |-> [s |-> "i32", d |-> <<3>>], IVec4 |-> [s |-> "i32", d |-> <<4>>],
    (* 64-bit integer vectors: the generator at hand refuses 64-bit integers (todo!()); should it ever accept them, the denotation is fixed *)
    I64Vec2 |-> [s |-> "i64", d |-> <<2>>], I64Vec3 |-> [s |-> "i64", d |-> <<3>>], I64Vec4 |-> [s |-> "i64", d |-> <<4>>],
    U64Vec2 |-> [s |-> "u64", d |-> <<2>>], U64Vec3 |-> [s |-> "u64", d |-> <<3>>], U64Vec4 |-> [s |-> "u64", d |-> <<4>>],
    Mat2 |-> [s |-> "f32", d |-> <<2, 2>>], Mat3 |-> [s |-> "f32", d |-> <<3, 3>>], Mat4 |-> [s |-> "f32", d |-> <<4, 4>>],
    DMat2 |-> [s |-> "f64", d |-> <<2, 2>>], DMat3 |-> [s |-> "f64", d |-> <<3, 3>>], DMat4 |-> [s |-> "f64", d |-> <<4, 4>>] ]

(* does glam have an equivalent of WGSL leaf type t? *)
GlamHas(t) ==
  \/ (t.k = "vec" /\ t.s \in {"f32", "f64", "u32", "i32"})
  \/ (t.k = "mat" /\ t.c = t.r /\ t.s \in {"f32", "f64"})

(* strip fixed-size arrays: [arrs |-> lengths outer to inner, leaf |-> element type] *)
RECURSIVE Unwrap(_)
Unwrap(t) == IF t.k = "array" THEN LET u == Unwrap(t.e) IN [ arrs |-> << t.n >> \o u.arrs, leaf |-> u.leaf ]
             ELSE [ arrs |-> << >>, leaf |-> t ]

LeafDims(t) == CASE t.k = "vec" -> << t.n >> [] t.k = "mat" -> << t.c, t.r >> [] OTHER -> << >>
LeafScalar(t) == IF t.k \in {"scalar", "atomic", "vec", "mat"} THEN t.s ELSE "?"
Sort2(d) == IF Len(d) = 2 /\ d[1] > d[2] THEN << d[2], d[1] >> ELSE d

ObsLeafDims(leaf) ==
  CASE leaf.fam = "glam" -> IF leaf.name \in DOMAIN GlamTable THEN GlamTable[leaf.name].d ELSE << -1 >>
    [] leaf.fam = "nalgebra" -> leaf.dims
    [] OTHER -> << >>
ObsLeafScalar(leaf) ==
  CASE leaf.fam = "prim" -> leaf.s
    [] leaf.fam = "glam" -> IF leaf.name \in DOMAIN GlamTable THEN GlamTable[leaf.name].s ELSE "?"
    [] leaf.fam = "nalgebra" -> IF "s" \in DOMAIN leaf THEN leaf.s ELSE "?"
    [] OTHER -> "?"

ExpectedFamily(t, mv) ==
  IF t.k \in {"vec", "mat"} THEN (IF mv = "glam" /\ GlamHas(t) THEN "glam" ELSE IF mv = "nalgebra" THEN "nalgebra" ELSE "prim")
  ELSE "prim"
(* glam has 64-bit integer vectors, the documentation of the representation switch does not say whether they are used: either spelling *)
AllowedFamilies(t, mv) ==
  {ExpectedFamily(t, mv)} \cup (IF mv = "glam" /\ t.k = "vec" /\ t.s \in {"i64", "u64"} THEN {"glam", "prim"} ELSE {})

(* value type (anything but a runtime-sized array) *)
ElemOk(S, t, flat, mv) ==
  LET w == Unwrap(t) IN
  IF w.leaf.k = "struct"
  THEN flat.dims = w.arrs /\ flat.leaf.fam = "struct" /\ flat.leaf.name = w.leaf.name
  ELSE LET od == flat.dims \o ObsLeafDims(flat.leaf)
           na == Len(w.arrs)
           k == Len(LeafDims(w.leaf))
       IN /\ Len(od) = na + k
          /\ SubSeq(od, 1, na) = w.arrs
          /\ Sort2(SubSeq(od, na + 1, na + k)) = Sort2(LeafDims(w.leaf))
          /\ ObsLeafScalar(flat.leaf) = LeafScalar(w.leaf)
          /\ flat.leaf.fam \in AllowedFamilies(w.leaf, mv)

FieldOk(S, m, f, mv) ==
  IF m.ty.k = "rtarray"
  THEN /\ f.flat.dims = << >> /\ f.flat.leaf.fam = "vec_of" /\ "inner" \in DOMAIN f.flat.leaf
       /\ ElemOk(S, m.ty.e, f.flat.leaf.inner, mv)
       /\ "size(runtime)" \in Range(f.attrs)
  ELSE ElemOk(S, m.ty, f.flat, mv) /\ "size(runtime)" \notin Range(f.attrs)
=============================================================================
