--------------------------- MODULE Shader ---------------------------
(* The abstract shader record S (DESIGN 4.1) and the declarative sets derived from it.     *)
(* Nothing here is algorithmic: these are the definitions the properties are stated in.     *)
(* S is the JSON record exchanged with the Rust driver:                                     *)
(*   S.structs  : Seq [name, members : Seq [name, ty, io?]]                                  *)
(*   S.globals  : Seq [name, space, group?, binding?, gr, br, ty]                            *)
(*   S.functions: Seq [name, ret, body]      S.entries : Seq [name, stage, params, result?, body, wg] *)
(*   body       : Seq Node, Node = [k|->"access", g, how, with?] | [k|->"call", f, expr]     *)
(*                                | [k|->"block", ctx, items]                                *)
EXTENDS Integers, Sequences, FiniteSets

Range(s) == { s[i] : i \in DOMAIN s }
Has(r, f) == f \in DOMAIN r

StageName(s) == CASE s = "vertex" -> "VERTEX" [] s = "fragment" -> "FRAGMENT" [] OTHER -> "COMPUTE"
AllStages == {"VERTEX", "FRAGMENT", "COMPUTE"}

(* ---------------- bodies ---------------- *)
RECURSIVE NodesRefs(_), NodesCallees(_)
NodeRefs(n) ==
  IF n.k = "access" THEN {n.g} \cup (IF Has(n, "with") THEN {n.with} ELSE {})
  ELSE IF n.k = "block" THEN NodesRefs(n.items) ELSE {}
NodesRefs(ns) == UNION { NodeRefs(ns[i]) : i \in DOMAIN ns }

NodeCallees(n) ==
  IF n.k = "call" THEN {n.f} ELSE IF n.k = "block" THEN NodesCallees(n.items) ELSE {}
NodesCallees(ns) == UNION { NodeCallees(ns[i]) : i \in DOMAIN ns }

FnNames(S) == { S.functions[i].name : i \in DOMAIN S.functions }
Fn(S, f) == CHOOSE d \in Range(S.functions) : d.name = f

(* functions reachable from a body through any chain of calls *)
RECURSIVE Closure(_, _, _)
Closure(S, frontier, seen) ==
  IF frontier = {} THEN seen
  ELSE LET next == UNION { NodesCallees(Fn(S, f).body) : f \in frontier } \ seen
       IN Closure(S, next, seen \cup next)
ReachFrom(S, body) == LET first == NodesCallees(body) IN Closure(S, first, first)

(* globals statically used from a body: directly or through any chain of calls *)
StaticUse(S, body) == NodesRefs(body) \cup UNION { NodesRefs(Fn(S, f).body) : f \in ReachFrom(S, body) }

(* C03: the stages owning an entry point that statically uses g *)
Vis(S, g) == { StageName(S.entries[i].stage) : i \in { j \in DOMAIN S.entries : g \in StaticUse(S, S.entries[j].body) } }
EntryStages(S) == { StageName(S.entries[i].stage) : i \in DOMAIN S.entries }

(* ---------------- resources ---------------- *)
IsResource(g) == Has(g, "group") /\ Has(g, "binding")
ResourceIdx(S) == { i \in DOMAIN S.globals : IsResource(S.globals[i]) }
(* resource declarations in declaration order, as <<group, binding, name>> over the rank abstraction *)
Resources(S) == SelectSeq(S.globals, IsResource)
IsPush(g) == g.space = "push"
PushGlobals(S) == SelectSeq(S.globals, IsPush)

(* ---------------- types ---------------- *)
StructNames(S) == { S.structs[i].name : i \in DOMAIN S.structs }
StructDef(S, n) == CHOOSE d \in Range(S.structs) : d.name = n

(* structs mentioned directly by a type term *)
RECURSIVE TyStructs(_)
TyStructs(t) ==
  CASE t.k = "struct" -> {t.name}
    [] t.k \in {"array", "rtarray"} -> TyStructs(t.e)
    [] OTHER -> {}

RECURSIVE StructClosure(_, _, _)
StructClosure(S, frontier, seen) ==
  IF frontier = {} THEN seen
  ELSE LET next == UNION { UNION { TyStructs(StructDef(S, n).members[i].ty) : i \in DOMAIN StructDef(S, n).members } : n \in frontier } \ seen
       IN StructClosure(S, next, seen \cup next)

(* C08: structs reachable from the type of a module-scope variable *)
HostReach(S) ==
  LET roots == UNION { TyStructs(S.globals[i].ty) : i \in DOMAIN S.globals }
  IN StructClosure(S, roots, roots)
EntryArgs(S) ==
  UNION { { S.entries[i].params[j].ty : j \in { q \in DOMAIN S.entries[i].params : S.entries[i].params[q].k = "struct" } } : i \in DOMAIN S.entries }
EntryResults(S) ==
  { S.entries[i].result.ty : i \in { j \in DOMAIN S.entries : Has(S.entries[j], "result") /\ S.entries[j].result.k = "struct" } }
Emit(S) == { n \in StructNames(S) : n \in HostReach(S) \/ (n \in EntryArgs(S) /\ n \notin EntryResults(S)) }

=============================================================================
