------------------------------ MODULE Source ------------------------------
(* The embedded shader source (C16): how proc_macro2 spells a string as a Rust literal and   *)
(* how rustc reads the literal back, over character classes. TLC checks that reading back    *)
(* is the identity for every class string up to the bound, including the NUL-before-digit    *)
(* case where `\0` must not be followed by a digit.                                          *)
EXTENDS Integers, Sequences, FiniteSets, TLC

CONSTANTS EscapeQuote   \* FALSE = the self-test mutant: a hand-rolled escape that forgets the quote

Classes == { "quote", "backslash", "lbrace", "rbrace", "cr", "lf", "tab", "nul", "digit", "ctrl", "del", "bmp", "astral", "linesep", "apostrophe", "plain" }

(* escape of one symbol given the next symbol (proc_macro2 fallback Literal::string) *)
Esc(c, next) ==
  CASE c = "quote" -> IF EscapeQuote THEN << "\\", "\"" >> ELSE << "\"" >>
    [] c = "backslash" -> << "\\", "\\" >>
    [] c = "lf" -> << "\\", "n" >>
    [] c = "cr" -> << "\\", "r" >>
    [] c = "tab" -> << "\\", "t" >>
    [] c = "nul" -> IF next = "digit" THEN << "\\", "x", "0", "0" >> ELSE << "\\", "0" >>
    [] c = "ctrl" -> << "\\", "u", "{", "1", "}" >>
    [] c = "del" -> << "\\", "u", "{", "7f", "}" >>
    [] c = "digit" -> << "7" >>
    [] c = "lbrace" -> << "{" >>
    [] c = "rbrace" -> << "}" >>
    [] c = "apostrophe" -> << "'" >>
    [] OTHER -> << c >>          \* printable text incl. non-ASCII is kept verbatim

RECURSIVE Escape(_)
Escape(s) == IF s = << >> THEN << >> ELSE Esc(Head(s), IF Len(s) > 1 THEN s[2] ELSE "end") \o Escape(Tail(s))

(* rustc's reading of a string literal body *)
RECURSIVE Unescape(_)
Unescape(t) ==
  IF t = << >> THEN << >>
  ELSE IF Head(t) # "\\" THEN << (CASE Head(t) = "7" -> "digit" [] Head(t) = "{" -> "lbrace" [] Head(t) = "}" -> "rbrace" [] Head(t) = "'" -> "apostrophe" [] OTHER -> Head(t)) >> \o Unescape(Tail(t))
  ELSE LET e == t[2] IN
    CASE e = "\"" -> << "quote" >> \o Unescape(SubSeq(t, 3, Len(t)))
      [] e = "\\" -> << "backslash" >> \o Unescape(SubSeq(t, 3, Len(t)))
      [] e = "n" -> << "lf" >> \o Unescape(SubSeq(t, 3, Len(t)))
      [] e = "r" -> << "cr" >> \o Unescape(SubSeq(t, 3, Len(t)))
      [] e = "t" -> << "tab" >> \o Unescape(SubSeq(t, 3, Len(t)))
      [] e = "0" -> << "nul" >> \o Unescape(SubSeq(t, 3, Len(t)))
      [] e = "x" -> << "nul" >> \o Unescape(SubSeq(t, 5, Len(t)))
      [] OTHER -> << (IF t[4] = "1" THEN "ctrl" ELSE "del") >> \o Unescape(SubSeq(t, 6, Len(t)))

RoundTrip(s) == Unescape(Escape(s)) = s
=============================================================================
