----------------------------- MODULE Stages -----------------------------
(* Operational model of wgsl.rs:global_shader_stages / update_stages / update_stages_blocks. *)
(* For every entry point the code walks the entry function: first the statement tree        *)
(* (descending into Block / If / Switch / Loop bodies and continuing blocks) and, on every   *)
(* call statement, recursively the callee; then the flat expression arena of the function,  *)
(* marking every referenced global with the entry's stage and recursing again into the      *)
(* callee of every call-result expression. One step of this model = one function walk       *)
(* (= one `stage.walk` hook event).                                                          *)
EXTENDS Shader

(* statement kind that a body context lowers to in naga's IR *)
CtxKind(c) ==
  CASE c = "plain" -> "Block"
    [] c = "if_accept" -> "IfAccept"
    [] c \in {"if_reject", "if_else_if", "if_chain", "if_chain_long"} -> "IfReject"
    [] c \in {"switch_case", "switch_default", "switch_multi", "switch_after_default"} -> "Switch"
    [] c \in {"loop_body", "for_body", "while_body"} -> "LoopBody"
    [] OTHER -> "LoopContinuing"
AllKinds == {"Block", "IfAccept", "IfReject", "Switch", "LoopBody", "LoopContinuing"}

(* call statements met by the block walk, in walk order, descending only into Handled kinds *)
RECURSIVE BlockCalls(_, _)
BlockCalls(ns, Handled) ==
  IF ns = << >> THEN << >>
  ELSE LET n == Head(ns)
           here == IF n.k = "call" THEN << n.f >>
                   (* "if_both": the same statements in the accept and in the reject arm of one `if` *)
                   (* "if_split": the first statement in the accept arm, the remaining ones in the reject arm *)
                   ELSE IF n.k = "block" /\ n.ctx = "if_split"
                   THEN (IF "IfAccept" \in Handled THEN BlockCalls(SubSeq(n.items, 1, 1), Handled) ELSE << >>)
                        \o (IF "IfReject" \in Handled THEN BlockCalls(SubSeq(n.items, 2, Len(n.items)), Handled) ELSE << >>)
                   ELSE IF n.k = "block" /\ n.ctx = "if_both"
                   THEN (IF "IfAccept" \in Handled THEN BlockCalls(n.items, Handled) ELSE << >>) \o (IF "IfReject" \in Handled THEN BlockCalls(n.items, Handled) ELSE << >>)
                   ELSE IF n.k = "block" /\ CtxKind(n.ctx) \in Handled THEN BlockCalls(n.items, Handled)
                   ELSE << >>
       IN here \o BlockCalls(Tail(ns), Handled)

(* call-result expressions of the arena: every call to a value-returning function, whatever its nesting *)
RECURSIVE ArenaCalls(_, _)
ArenaCalls(S, ns) ==
  IF ns = << >> THEN << >>
  ELSE LET n == Head(ns)
           here == IF n.k = "call" THEN (IF Fn(S, n.f).ret THEN << n.f >> ELSE << >>)
                   ELSE IF n.k = "block" /\ n.ctx = "if_both" THEN ArenaCalls(S, n.items) \o ArenaCalls(S, n.items)
                   ELSE IF n.k = "block" THEN ArenaCalls(S, n.items)
                   ELSE << >>
       IN here \o ArenaCalls(S, Tail(ns))

Frame(S, name, body, P) ==
  [ fn |-> name, todoB |-> BlockCalls(body, P.handled), scanned |-> FALSE,
    todoA |-> IF P.arenaCalls THEN ArenaCalls(S, body) ELSE << >>, refs |-> NodesRefs(body) ]

GlobalNames(S) == { S.globals[i].name : i \in DOMAIN S.globals }
StInit(S) == [ stack |-> << >>, marks |-> [ g \in GlobalNames(S) |-> {} ], visited |-> {},
               walks |-> 0, ei |-> 0, stage |-> "", log |-> << >> ]

Top(st) == st.stack[Len(st.stack)]
SetTop(st, f) == [ st EXCEPT !.stack = [ st.stack EXCEPT ![Len(st.stack)] = f ] ]
Pop(st) == [ st EXCEPT !.stack = SubSeq(st.stack, 1, Len(st.stack) - 1) ]

(* P = [handled, arenaCalls, memo] : the algorithm's parameters.                            *)
(* The code: handled = AllKinds, arenaCalls = TRUE; memo = does a callee already walked for *)
(* the current entry point get walked again.                                                 *)
RECURSIVE Settle(_, _)
Settle(st, P) ==
  IF st.stack = << >> THEN st
  ELSE LET f == Top(st) IN
    IF f.todoB # << >> THEN
      IF P.memo /\ Head(f.todoB) \in st.visited THEN Settle(SetTop(st, [f EXCEPT !.todoB = Tail(f.todoB)]), P) ELSE st
    ELSE IF ~f.scanned THEN
      Settle([ SetTop(st, [f EXCEPT !.scanned = TRUE])
               EXCEPT !.marks = [ g \in DOMAIN st.marks |-> IF g \in f.refs THEN st.marks[g] \cup {st.stage} ELSE st.marks[g] ] ], P)
    ELSE IF f.todoA # << >> THEN
      IF P.memo /\ Head(f.todoA) \in st.visited THEN Settle(SetTop(st, [f EXCEPT !.todoA = Tail(f.todoA)]), P) ELSE st
    ELSE Settle(Pop(st), P)

(* the callee whose walk is next (st must be settled and non-empty) *)
NextCallee(st) == LET f == Top(st) IN IF f.todoB # << >> THEN Head(f.todoB) ELSE Head(f.todoA)

WalkCallee(S, st, P) ==
  LET f == Top(st)
      c == NextCallee(st)
      f2 == IF f.todoB # << >> THEN [f EXCEPT !.todoB = Tail(f.todoB)] ELSE [f EXCEPT !.todoA = Tail(f.todoA)]
      st2 == SetTop(st, f2)
  IN Settle([ st2 EXCEPT !.stack = Append(st2.stack, Frame(S, c, Fn(S, c).body, P)),
                         !.visited = st2.visited \cup {c}, !.walks = st2.walks + 1, !.log = Append(st2.log, c) ], P)

StartEntry(S, st, P) ==
  LET e == S.entries[st.ei + 1]
  IN Settle([ st EXCEPT !.ei = st.ei + 1, !.stage = StageName(e.stage), !.visited = {},
                        !.stack = << Frame(S, e.name, e.body, P) >>, !.walks = st.walks + 1, !.log = Append(st.log, e.name) ], P)

CanStart(S, st) == st.stack = << >> /\ st.ei < Len(S.entries)
CanWalk(st) == st.stack # << >>
Finished(S, st) == st.stack = << >> /\ st.ei = Len(S.entries)

(* whole run, for the trace checker *)
RECURSIVE Run(_, _, _)
Run(S, st, P) ==
  IF Finished(S, st) THEN st
  ELSE IF CanWalk(st) THEN Run(S, WalkCallee(S, st, P), P)
  ELSE Run(S, StartEntry(S, st, P), P)

(* ---------------- properties ---------------- *)
MarksAreVis(S, st) == \A g \in DOMAIN st.marks : st.marks[g] = Vis(S, g)
(* C20, tight bound: each function body is walked at most once per entry point *)
WalkBound(S) == Len(S.entries) * (1 + Len(S.functions))
WorkBounded(S, st) == st.walks <= WalkBound(S)
CodeParams(memo) == [ handled |-> AllKinds, arenaCalls |-> TRUE, memo |-> memo ]
=============================================================================
