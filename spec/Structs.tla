----------------------------- MODULE Structs -----------------------------
(* What is emitted for each struct: derive set, representation, layout assertions (C09),   *)
(* field list (C06) and assertion numbers (C05), as functions of the abstract shader and    *)
(* the write options. Mirrors structs.rs:rust_struct.                                        *)
EXTENDS Layout

IsRt(t) == t.k = "rtarray"
HasRts(S, name) == \E i \in DOMAIN StructDef(S, name).members : IsRt(StructDef(S, name).members[i].ty)
RtsNotLast(S, name) == LET ms == StructDef(S, name).members IN \E i \in DOMAIN ms : IsRt(ms[i].ty) /\ i # Len(ms)
HostShareable(S, name) == name \in HostReach(S)

IsBuiltinMember(m) == Has(m, "io") /\ m.io.k = "builtin"
(* members that become Rust fields: builtins need no user data *)
Fields(S, name) == SelectSeq(StructDef(S, name).members, LAMBDA m : ~IsBuiltinMember(m))

(* documented panics of the generator (unsupported combinations) *)
PanicsFor(S, name, o) ==
  \/ (HasRts(S, name) /\ ~o.enc)
  \/ (HasRts(S, name) /\ o.bmv /\ ~HostShareable(S, name))
  \/ (HasRts(S, name) /\ o.bmh /\ HostShareable(S, name))
  \/ RtsNotLast(S, name)
(* bindgroup.rs has no arm for a binding whose own type is an atomic (`var<storage, read_write> n: atomic<u32>`): it panics *)
(* ("Unsupported type"); found by the conformance engine, recorded in DESIGN 8 - no listed property covers it              *)
UnsupportedBinding(S) == \E r \in Range(Resources(S)) : r.ty.k = "atomic"
DocumentedPanic(S, o) == UnsupportedBinding(S) \/ \E n \in Emit(S) : PanicsFor(S, n, o)

Derives(S, name, o) ==
  {"Debug", "Clone", "PartialEq"}
  \cup (IF HasRts(S, name) THEN {} ELSE {"Copy"})
  \cup (IF (o.bmh /\ HostShareable(S, name)) \/ (o.bmv /\ ~HostShareable(S, name)) THEN {"bytemuck::Pod", "bytemuck::Zeroable"} ELSE {})
  \cup (IF o.enc /\ HostShareable(S, name) THEN {"encase::ShaderType"} ELSE {})
  \cup (IF o.serde THEN {"serde::Serialize", "serde::Deserialize"} ELSE {})
ReprC(S, name) == ~HasRts(S, name)
HasAsserts(S, name, o) == o.bmh /\ HostShareable(S, name)

(* C05: the numbers the assertions must carry: one offset per field, and the struct size *)
AssertOffsets(S, name) ==
  LET ms == StructDef(S, name).members
      offs == MemberOffsets(S, name)
      idx == SelectSeq([ i \in DOMAIN ms |-> i ], LAMBDA i : ~IsBuiltinMember(ms[i]))
  IN [ k \in DOMAIN idx |-> [ field |-> ms[idx[k]].name, n |-> offs[idx[k]] ] ]

(* which parts of the output may depend on which option (C09 non-interference) *)
StructOptKey(o) == << o.bmv, o.bmh, o.enc, o.serde, o.mv >>
(* what the documented default options stand for: wgpu only, plain Rust arrays, no formatter, no validation (a default validator knows every capability) *)
DefaultOptions == [ bmv |-> FALSE, bmh |-> FALSE, enc |-> FALSE, serde |-> FALSE, mv |-> "rust", rustfmt |-> FALSE, validate |-> "none" ]
=========================================================================
