SPECIFICATION TSpec
CONSTANTS Cap = 2 Sizes = {1, 3} Plans = {"absent", "ok", "fail_after_read", "fail_no_read", "killed", "empty", "garbage_no_read"} Tolerant = TRUE
POSTCONDITION Accepted
CHECK_DEADLOCK FALSE
