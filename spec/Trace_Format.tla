--------------------------- MODULE Trace_Format ---------------------------
(* Trace validation for the formatter interaction (C19), by reachability.                    *)
(* The recorded events of one call (`case`, the `fmt.*` hook events of the parent, `obs`)    *)
(* are milestones; all steps of Format.tla are silent. A call is accepted iff some behaviour *)
(* of the specification (Tolerant = TRUE, the child following the case's fault plan, any     *)
(* interleaving) passes through states matching the milestones in order and ends in the      *)
(* observed result with the SAME program (token hash equal to the formatter-off reference).  *)
EXTENDS Format, TLC, Json, IOUtils

Rec == ndJsonDeserialize(IOEnv.TRACE)
VARIABLES l
tvars == << vars, l >>

PlanOf(c) ==
  CASE c.fmt_plan \in {"ok", "slow", "very_slow"} -> "ok"
    [] c.fmt_plan \in {"fail_after_read", "slow_read"} -> "fail_after_read"
    [] c.fmt_plan = "fail_no_read" -> "fail_no_read"
    [] c.fmt_plan = "empty" -> "empty"
    [] c.fmt_plan \in {"ok_no_read", "ok_partial_read"} -> "garbage_no_read"
    [] c.fmt_plan \in {"near_swap", "near_str_ws", "near_prefix", "near_twice", "near_source_ws", "near_field_swap", "near_swap_raw", "near_str_ws_raw", "near_twice_raw", "near_source_ws_raw", "near_str_case", "near_str_case_raw", "near_drop_last", "near_drop_last_raw"} -> "garbage_after_read"
    [] c.fmt_plan \in {"absent", "noexec", "isdir"} -> "absent"
    [] c.fmt_plan \in {"ok_utf8_cut", "garbage_utf8_96"} -> "garbage_after_read"
    [] c.fmt_plan = "ok_sigchld_ignored" -> "killed"   \* the kernel reaps the child behind the parent's back: waiting fails, falling back is allowed
    [] OTHER -> "killed"
SizeOfCase(c) == IF c.size_class = "large" THEN 3 ELSE 1

Ev == Rec[l]
Has(r, f) == f \in DOMAIN r
Consume == l' = l + 1 /\ TLCSet(3, IF l + 1 > TLCGet(3) THEN l + 1 ELSE TLCGet(3))
Keep == UNCHANGED vars
IsPhase(n) == l <= Len(Rec) /\ Ev.ev = "phase" /\ Ev.name = n

TInit ==
  /\ l = 1 /\ TLCSet(3, 1)
  /\ plan = "absent" /\ size = 1 /\ ppc = "done" /\ cpc = "none"
  /\ inPipe = 0 /\ inR = FALSE /\ inW = FALSE /\ outPipe = 0 /\ outW = FALSE
  /\ toWrite = 0 /\ childRead = 0 /\ childOut = 0 /\ got = 0 /\ garbage = FALSE /\ status = "running" /\ result = "pending"

(* a new call starts: the model is reset to Format!Init for this call's plan and size *)
TCase ==
  /\ l <= Len(Rec) /\ Ev.ev = "case" /\ ppc = "done" /\ Consume
  /\ plan' = PlanOf(Ev) /\ size' = SizeOfCase(Ev) /\ ppc' = "spawn" /\ cpc' = "none"
  /\ inPipe' = 0 /\ inR' = FALSE /\ inW' = FALSE /\ outPipe' = 0 /\ outW' = FALSE
  /\ toWrite' = SizeOfCase(Ev) /\ childRead' = 0 /\ childOut' = 0 /\ got' = 0 /\ garbage' = FALSE /\ status' = "running" /\ result' = "pending"

TSilent == (Parent \/ Child) /\ UNCHANGED l

TSpawned == IsPhase("fmt.spawned") /\ ppc = "write" /\ toWrite = size /\ Keep /\ Consume
TWritten == IsPhase("fmt.written") /\ ppc = "close_stdin" /\ Keep /\ Consume
TWait ==
  /\ l <= Len(Rec) /\ Ev.ev = "fmt.wait" /\ ppc = "decide" /\ status # "nospawn"
  /\ (status = "exit0") = Ev.success
  /\ (got > 0) = (Ev.stdout_len > 0)
  /\ Keep /\ Consume
TFormatted == IsPhase("fmt.formatted") /\ ppc = "done" /\ result = "OkFormatted" /\ Keep /\ Consume
TFallback == IsPhase("fmt.fallback") /\ ppc = "done" /\ result = "OkUnformatted" /\ Keep /\ Consume
(* the generator's own phases before the formatter: irrelevant here *)
TOtherPhase ==
  /\ l <= Len(Rec) /\ Ev.ev = "phase" /\ Ev.name \notin {"fmt.spawned", "fmt.written", "fmt.formatted", "fmt.fallback"}
  /\ Keep /\ Consume
TObs ==
  /\ l <= Len(Rec) /\ Ev.ev = "obs" /\ ppc = "done" /\ result \in {"OkFormatted", "OkUnformatted"}
  /\ Ev.ret.kind = "ok"
  /\ Has(Ev, "ref_tokens_sha") /\ Ev.tokens_sha = Ev.ref_tokens_sha
  /\ ~Has(Ev, "zombie")     \* the parent reached "done" through PWait: no child process is left behind unreaped
  /\ Keep /\ Consume

TNext == TCase \/ TSilent \/ TSpawned \/ TWritten \/ TWait \/ TFormatted \/ TFallback \/ TOtherPhase \/ TObs
TSpec == TInit /\ [][TNext]_tvars

Accepted == PrintT("SUMMARY " \o ToJson([ lines |-> Len(Rec), maxl |-> TLCGet(3) ]))
=============================================================================
