----------------------------- MODULE Trace_Gen -----------------------------
(* Trace validation for the generator channel.                                              *)
(* The trace (ndjson, env TRACE) is a sequence of events recorded while the REAL generator  *)
(* ran on concrete shaders: `case` (abstract input S + options), hook events emitted by     *)
(* the instrumented library, and `obs` (result, projected output, oracle answers).          *)
(* Each event is one step. At every `obs` the definitions of the enforced property (env     *)
(* ENFORCE) are evaluated on the abstract input and compared with what the implementation   *)
(* really produced. Verdicts are accumulated: a failing case is printed and counted, the    *)
(* rest of the trace is still examined.                                                     *)
EXTENDS Stages, TLC, Json, IOUtils

BGD == INSTANCE BindGroupData
TC == INSTANCE TypeClosure
L == INSTANCE Layout
ST == INSTANCE Structs
RT == INSTANCE RustTypes
RUN == INSTANCE Runtime
EN == INSTANCE Entries
CO == INSTANCE Consts
CP == INSTANCE Compile
CAP == INSTANCE Caps
WR == INSTANCE WgpuRules
OUT == INSTANCE Output

Rec == ndJsonDeserialize(IOEnv.TRACE)
Enforce == IOEnv.ENFORCE

(* memo: what earlier calls on the SAME source returned (History: output is a function of the input). *)
(* It is reset whenever the source changes; the driver keeps calls on one source adjacent.             *)
(* ph: the `phase` hook events of the current call (Generator.tla names the phases).                    *)
(* hk: the per-step hook events of the current call (scan, walk, visit), for the refinement check.    *)
VARIABLES l, cur, nj, nbad, memo, ph, hk
vars == <<l, cur, nj, nbad, memo, ph, hk>>
PhaseSeq == << "parsed", "validated", "bind_group_data", "stages", "structs", "assembled" >>

Chk(ok, msg) == IF ok THEN {} ELSE {msg}
RECURSIVE IsSubSeq(_, _)
IsSubSeq(a, b) == IF a = << >> THEN TRUE ELSE IF b = << >> THEN FALSE
                  ELSE IF Head(a) = Head(b) THEN IsSubSeq(Tail(a), Tail(b)) ELSE IsSubSeq(a, Tail(b))
Str(x) == ToString(x)
NoVerdict == [ dom |-> FALSE, fails |-> {} ]

HasS(c) == c.has_s
ParseOk(o) == o.oracle.parse.ok
ValidAll(o) == ParseOk(o) /\ o.oracle.valid_all.ok
RetOk(o) == o.ret.kind = "ok"
Projected(o) == RetOk(o) /\ Has(o, "out")
(* compiled / executed modules *)
Compiled(o) == Has(o, "compile") /\ o.compile.outcome = "ok"
RtOf(o, p) == IF Has(o, "rt") THEN SelectSeq(o.rt, LAMBDA e : e.probe = p) ELSE << >>
ProbeFail(o, p) == IF Has(o, "compile") THEN { x.message : x \in { y \in Range(o.compile.probe_fail) : y.probe = p } } ELSE {}

(* ------------------------------------------------------------------ C11 *)
Decls(S) == [ i \in DOMAIN Resources(S) |-> << Resources(S)[i].gr, Resources(S)[i].br >> ]
BrOf(S, b) ==
  LET m == { i \in DOMAIN Resources(S) : Resources(S)[i].binding = b }
  IN IF m = {} THEN -1 ELSE Resources(S)[CHOOSE i \in m : TRUE].br
ObsRes(S, o) ==
  CASE o.ret.kind = "ok" -> [ kind |-> "ok" ]
    [] o.ret.kind = "panic" -> [ kind |-> "panic" ]
    [] o.ret.err = "DuplicateBinding" -> [ kind |-> "dup", binding |-> BrOf(S, o.ret.binding) ]
    [] o.ret.err = "NonConsecutiveBindGroups" -> [ kind |-> "nonconsecutive" ]
    [] OTHER -> [ kind |-> o.ret.err ]
ValidatorRejects(c, o) == c.opts.validate # "none" /\ Has(o.oracle, "valid_req") /\ ~o.oracle.valid_req.ok
GroupStrs(S) == { Resources(S)[i].group : i \in DOMAIN Resources(S) }
ExpectedGroupTable(S) ==
  { [ no |-> g, bs |-> LET rs == SelectSeq(Resources(S), LAMBDA r : r.group = g) IN [ j \in DOMAIN rs |-> rs[j].binding ] ] : g \in GroupStrs(S) }
ObservedGroupTable(o) ==
  { [ no |-> G.no, bs |-> IF Has(G, "entries") THEN [ j \in DOMAIN G.entries |-> G.entries[j].binding ] ELSE << "missing" >> ] : G \in Range(o.out.groups) }
(* the bind group a host program builds: every variable supplies exactly the entry with its own @binding, in its own group *)
ExpectedSupply(S) == { << r.group, r.binding, r.name >> : r \in Range(Resources(S)) }
(* groups whose entries the projection could read (a generator that spells `from_bindings` in a way the projection does not follow is *)
(* not judged here: the executed check C04 covers it)                                                                               *)
SupplyRead(o) == \A G \in Range(o.out.groups) : Has(G, "from_bindings") /\ Has(G.from_bindings, "entries")
ObservedSupply(o) ==
  UNION { { << G.no, e.binding, IF Has(e, "field") THEN e.field ELSE "?" >> : e \in Range(G.from_bindings.entries) } : G \in Range(o.out.groups) }
SupplyCount(o) == LET gs == SelectSeq(o.out.groups, LAMBDA G : Has(G, "from_bindings") /\ Has(G.from_bindings, "entries"))
                      RECURSIVE Sum(_)
                      Sum(i) == IF i > Len(gs) THEN 0 ELSE Len(gs[i].from_bindings.entries) + Sum(i + 1)
                  IN Sum(1)
C11(c, o) ==
  IF ~(HasS(c) /\ ParseOk(o)) THEN NoVerdict ELSE
  (* a resource of a type the generator documents as unsupported (Structs!DocumentedPanic) is refused loudly whatever its numbering: outside C11 *)
  IF o.ret.kind = "panic" /\ ST!DocumentedPanic(c.S, c.opts) THEN NoVerdict ELSE
  LET S == c.S
      res == ObsRes(S, o)
      d == Decls(S)
  IN [ dom |-> TRUE, fails |->
       IF res.kind = "ValidationError"
       THEN Chk(ValidatorRejects(c, o), "ValidationError returned although the validator accepts the module")
       ELSE Chk(BGD!Contract(d, res), "group numbering contract broken: result " \o ToJson(res) \o " for declarations " \o ToJson(d))
            \cup (IF res.kind = "ok" /\ Has(o, "out")
                  THEN Chk(ObservedGroupTable(o) = ExpectedGroupTable(S) /\ Len(o.out.groups) = Cardinality(GroupStrs(S)),
                           "emitted groups " \o ToJson(ObservedGroupTable(o)) \o " differ from declared " \o ToJson(ExpectedGroupTable(S)))
                       \cup (IF BGD!Contract(d, res) /\ Has(o.out, "pipeline_layout") /\ Has(o.out.pipeline_layout, "bgl_nos")
                             THEN Chk(o.out.pipeline_layout.bgl_nos = RUN!GroupOrder(S),
                                      "the pipeline layout lists the layouts of groups " \o ToJson(o.out.pipeline_layout.bgl_nos) \o " instead of every group's own layout in index order")
                             ELSE {})
                       \cup Chk(~SupplyRead(o) \/ (ObservedSupply(o) = ExpectedSupply(S) /\ SupplyCount(o) = Len(Resources(S))),
                                "bind group entries built by from_bindings " \o ToJson(ObservedSupply(o)) \o " differ from the declared (group, binding, variable) triples " \o ToJson(ExpectedSupply(S)))
                  ELSE {}) ]

(* ------------------------------------------------------------------ C03 *)
ResName(S, g, b) ==
  LET m == { i \in DOMAIN Resources(S) : Resources(S)[i].group = g /\ Resources(S)[i].binding = b }
  IN IF m = {} THEN "?" ELSE Resources(S)[CHOOSE i \in m : TRUE].name
EntryFails(S, G, e) ==
  LET name == ResName(S, G.no, e.binding) IN
  IF ~Has(e, "vis") THEN { "PROJ visibility expression of " \o name \o " could not be evaluated" }
  ELSE Chk(Range(e.vis) = Vis(S, name),
           "visibility of " \o name \o " is " \o ToJson(Range(e.vis)) \o " but the stages statically using it are " \o ToJson(Vis(S, name)))
RECURSIVE NodesAddr(_)
NodeAddr(n) == IF n.k = "access" THEN n.how = "addr" ELSE IF n.k = "block" THEN NodesAddr(n.items) ELSE FALSE
NodesAddr(ns) == \E i \in DOMAIN ns : NodeAddr(ns[i])
AddrOnlyFree(S) == ~(\E i \in DOMAIN S.functions : NodesAddr(S.functions[i].body)) /\ ~(\E i \in DOMAIN S.entries : NodesAddr(S.entries[i].body))
PushExpected(S) == LET pc == PushGlobals(S)[1].name IN IF Vis(S, pc) # {} THEN Vis(S, pc) ELSE EntryStages(S)
PushUsed(S) == PushGlobals(S) # << >> /\ Vis(S, PushGlobals(S)[1].name) # {}
C03(c, o) ==
  IF ~(HasS(c) /\ ValidAll(o) /\ Projected(o)) THEN NoVerdict ELSE
  LET S == c.S IN
  [ dom |-> TRUE, fails |->
      UNION { UNION { EntryFails(S, G, G.entries[j]) : j \in DOMAIN G.entries } : G \in { H \in Range(o.out.groups) : Has(H, "entries") } }
      \cup (IF PushUsed(S)
            THEN IF Has(o.out, "push_stages") /\ Has(o.out.push_stages, "stages")
                 THEN Chk(Range(o.out.push_stages.stages) = PushExpected(S),
                          "PUSH_CONSTANT_STAGES is " \o ToJson(Range(o.out.push_stages.stages)) \o " but the push constant is used by " \o ToJson(PushExpected(S)))
                 ELSE { "PUSH_CONSTANT_STAGES missing or not evaluable although a push constant is used" }
            ELSE {})
      (* naga's use analysis counts reads, writes and queries; a variable that is only named (`&v`) is a static use it does not report, *)
      (* so it is a lower bound in general and exact for shaders without address-only accesses                                           *)
      \cup UNION { Chk(Range(o.oracle.vis[Resources(S)[i].name]) \subseteq Vis(S, Resources(S)[i].name)
                       /\ (AddrOnlyFree(S) => Range(o.oracle.vis[Resources(S)[i].name]) = Vis(S, Resources(S)[i].name)),
                       "ORACLE naga global use of " \o Resources(S)[i].name \o " disagrees with Vis") : i \in DOMAIN Resources(S) } ]

(* C03 on the values the compiled module really passes to the device (recording shim): every create_bind_group_layout
   recorded while building the pipeline layout, and the recorded push constant range / PUSH_CONSTANT_STAGES *)
C03R(c, o) ==
  IF ~(HasS(c) /\ ValidAll(o) /\ RetOk(o) /\ Compiled(o)) THEN NoVerdict ELSE
  LET S == c.S
      evs == RtOf(o, "pipeline_layout")
      bgls == SelectSeq(evs, LAMBDA e : e.ev = "rt.create_bgl")
      order == RUN!GroupOrder(S)
      pl == SelectSeq(evs, LAMBDA e : e.ev = "rt.create_pipeline_layout")
      ps == SelectSeq(evs, LAMBDA e : e.ev = "rt.push_stages")
  IN [ dom |-> evs # << >>, fails |->
       Chk(Len(bgls) = Len(order), "recorded " \o Str(Len(bgls)) \o " bind group layouts for " \o Str(Len(order)) \o " groups")
       \cup (IF Len(bgls) = Len(order) THEN
               UNION { UNION { LET e == bgls[i].entries[j]
                                   name == ResName(S, order[i], e.binding)
                               IN Chk(Range(e.vis) = Vis(S, name), "recorded visibility of " \o name \o " is " \o ToJson(Range(e.vis)) \o " but the stages statically using it are " \o ToJson(Vis(S, name)))
                               : j \in DOMAIN bgls[i].entries } : i \in DOMAIN bgls }
             ELSE {})
       \cup (IF PushUsed(S) THEN
               Chk(Len(ps) = 1 /\ Range(ps[1].stages) = PushExpected(S), "recorded PUSH_CONSTANT_STAGES differ from " \o ToJson(PushExpected(S)))
               \cup Chk(Len(pl) = 1 /\ Len(pl[1].push_ranges) = 1 /\ Range(pl[1].push_ranges[1].stages) = PushExpected(S), "recorded push constant range stages differ from " \o ToJson(PushExpected(S)))
             ELSE {}) ]

(* C13 on the recorded pipeline layout descriptor, plus wgpu's own acceptance of it *)
C13R(c, o) ==
  IF ~(HasS(c) /\ ValidAll(o) /\ RetOk(o) /\ Compiled(o)) THEN NoVerdict ELSE
  LET S == c.S
      has == PushGlobals(S) # << >>
      evs == RtOf(o, "pipeline_layout")
      pl == SelectSeq(evs, LAMBDA e : e.ev = "rt.create_pipeline_layout")
      ps == SelectSeq(evs, LAMBDA e : e.ev = "rt.push_stages")
      real == IF PushGlobals(S) # << >> /\ PushExpected(S) = {} THEN {}   \* a module without entry points: wgpu has nothing to attach the range to
              ELSE IF PushGlobals(S) # << >> /\ L!SizeOf(S, PushGlobals(S)[1].ty) > 256 THEN {}   \* above the test device's max_push_constant_size: the device's refusal is about the limit
              ELSE { e \in Range(RtOf(o, "wgpu")) : Has(e, "err") /\ e.call = "create_pipeline_layout" /\ ~Has(e, "device") }
  IN [ dom |-> evs # << >> \/ RtOf(o, "wgpu") # << >>, fails |->
       (IF evs = << >> THEN {} ELSE
         Chk(Len(pl) = 1, "create_pipeline_layout recorded " \o Str(Len(pl)) \o " pipeline layouts")
         \cup (IF Len(pl) = 1 THEN
                 Chk(Len(pl[1].push_ranges) = (IF has THEN 1 ELSE 0), "recorded push constant ranges: " \o Str(Len(pl[1].push_ranges)) \o ", push constant declared: " \o Str(has))
                 \cup (IF has /\ Len(pl[1].push_ranges) = 1 THEN
                         LET r == pl[1].push_ranges[1]
                             wsize == L!SizeOf(S, PushGlobals(S)[1].ty) IN
                         Chk(r.start = "0" /\ r.end = Str(wsize), "recorded push constant range " \o r.start \o ".." \o r.end \o " but the variable has WGSL size " \o Str(wsize))
                         \cup Chk(Range(r.stages) = PushExpected(S), "recorded range stages " \o ToJson(Range(r.stages)) \o " expected " \o ToJson(PushExpected(S)))
                         \cup Chk(Len(ps) = 1 /\ Range(ps[1].stages) = Range(r.stages), "PUSH_CONSTANT_STAGES differs from the range's stages")
                       ELSE {})
               ELSE {})
         \cup Chk((Len(ps) = 1) = has, "PUSH_CONSTANT_STAGES exported: " \o Str(Len(ps)) \o ", push constant declared: " \o Str(has)))
       \cup { "wgpu rejects the pipeline layout: " \o e.err : e \in real } ]

(* ------------------------------------------------------------------ C08 *)
C08(c, o) ==
  IF ~(HasS(c) /\ ValidAll(o) /\ Projected(o)) THEN NoVerdict ELSE
  LET S == c.S
      names == [ i \in DOMAIN o.out.structs |-> o.out.structs[i].name ]
  IN [ dom |-> TRUE, fails |->
       Chk(Range(names) = Emit(S),
           "emitted structs " \o ToJson(Range(names)) \o " but the host-visible structs are " \o ToJson(Emit(S)))
       \cup Chk(Len(names) = Cardinality(Range(names)), "a struct is emitted more than once: " \o ToJson(names))
       \cup Chk(TC!ClosureIsHostReach(S, TRUE), "ORACLE closure model disagrees with HostReach") ]

(* ------------------------------------------------------------------ C20 *)
(* N = size of the IR; the judged bound is quadratic so that constant-factor changes are    *)
(* not alarms while any per-call-site / per-depth multiplication (2^depth) is.              *)
IrSize(o) == o.oracle.ir.nodes + o.oracle.ir.types + o.oracle.ir.globals + 8
WorkOf(o) == o.work[1] + o.work[2] + o.work[3]
C20(c, o) ==
  IF ~ParseOk(o) THEN NoVerdict ELSE
  IF o.ret.kind = "timeout" THEN [ dom |-> TRUE, fails |-> { "generation did not return within the hard limit (child process killed)" } ] ELSE
  [ dom |-> TRUE, fails |->
      Chk(~(o.ret.kind = "panic" /\ o.ret.msg = "verif budget exceeded"),
          "generation exceeded the work budget (super-polynomial walk); IR size " \o Str(IrSize(o)))
      \cup Chk(WorkOf(o) <= IrSize(o) * IrSize(o),
               "work " \o Str(WorkOf(o)) \o " exceeds the quadratic bound for IR size " \o Str(IrSize(o)))
      \cup Chk(o.micros < 20000000, "generation took " \o Str(o.micros) \o " us")
      (* CPU time of the calling thread (insensitive to machine load): "well under a second" with a 2x margin *)
      \cup Chk(~Has(o, "cpu_micros") \/ o.cpu_micros < 500000 + 200 * IrSize(o), "generation used " \o Str(o.cpu_micros) \o " us of CPU for an IR of size " \o Str(IrSize(o))) ]

(* ------------------------------------------------------------------ C13 (static part) *)
C13(c, o) ==
  IF ~(HasS(c) /\ ValidAll(o) /\ Projected(o)) THEN NoVerdict ELSE
  LET S == c.S
      has == PushGlobals(S) # << >>
      pl == o.out.pipeline_layout
      ranges == IF Has(o.out, "pipeline_layout") /\ Has(pl, "push_ranges") THEN pl.push_ranges ELSE << >>
  IN [ dom |-> TRUE, fails |->
       Chk(Has(o.out, "pipeline_layout"), "PROJ create_pipeline_layout not found")
       \cup Chk(Len(ranges) = (IF has THEN 1 ELSE 0), "push constant ranges: " \o Str(Len(ranges)) \o ", push constant declared: " \o Str(has))
       \cup Chk(Has(o.out, "push_stages") <=> has, "PUSH_CONSTANT_STAGES present: " \o Str(Has(o.out, "push_stages")) \o ", push constant declared: " \o Str(has))
       \cup (IF has /\ Len(ranges) = 1 /\ Has(o.out, "push_stages") THEN
               LET r == ranges[1]
                   pc == PushGlobals(S)[1].name
                   want == PushExpected(S)
                   cst == IF Has(o.out.push_stages, "stages") THEN Range(o.out.push_stages.stages) ELSE {"?"}
                   rs == IF ~Has(r, "stages") THEN {"?"} ELSE IF r.stages = << "$PUSH_CONSTANT_STAGES" >> THEN cst ELSE Range(r.stages)
                   wsize == L!SizeOf(S, PushGlobals(S)[1].ty)
               IN Chk(Has(r, "start") /\ r.start = "0", "push constant range does not start at 0")
                  \cup Chk(~r.incl /\ Has(r, "end") /\ r.end = Str(wsize),
                           "push constant range end " \o (IF Has(r, "end") THEN r.end ELSE "?") \o " but the variable has WGSL size " \o Str(wsize))
                  \cup Chk(wsize % 4 = 0, "ORACLE push constant size not a multiple of 4")
                  \cup Chk(o.oracle.global_size[pc] = wsize, "ORACLE naga size " \o Str(o.oracle.global_size[pc]) \o " differs from Layout.tla size " \o Str(wsize))
                  \cup Chk(cst = want, "PUSH_CONSTANT_STAGES " \o ToJson(cst) \o " expected " \o ToJson(want))
                  \cup Chk(rs = cst, "range stages " \o ToJson(rs) \o " differ from PUSH_CONSTANT_STAGES " \o ToJson(cst))
             ELSE {}) ]

(* ------------------------------------------------------------------ memo (History) *)
MemoFor(c) == IF memo.sha = c.src_sha THEN memo.m ELSE << >>
(* look up key k: "" when absent *)
MGet(m, k) == IF k \in DOMAIN m THEN m[k] ELSE ""
MPut(m, k, v) == IF k \in DOMAIN m THEN m ELSE [ x \in DOMAIN m \cup {k} |-> IF x = k THEN v ELSE m[x] ]
SameOrNew(m, k, v, msg) == Chk(MGet(m, k) \in {"", v}, msg \o " (" \o MGet(m, k) \o " before, " \o v \o " now)")

(* ------------------------------------------------------------------ C09 *)
StructFails(S, o, st) ==
  LET n == st.name IN
  IF n \notin StructNames(S) THEN { "emitted struct " \o n \o " is not a WGSL struct" } ELSE
  Chk(Range(st.derives) = ST!Derives(S, n, o), "derives of " \o n \o " are " \o ToJson(Range(st.derives)) \o " expected " \o ToJson(ST!Derives(S, n, o)))
  \cup Chk(Len(st.derives) = Cardinality(Range(st.derives)), "duplicate derive on " \o n)
  \cup Chk(st.repr_c = ST!ReprC(S, n), "repr(C) on " \o n \o " is " \o Str(st.repr_c) \o " expected " \o Str(ST!ReprC(S, n)))
  \cup Chk((Len(st.asserts) > 0) = ST!HasAsserts(S, n, o), "layout assertions on " \o n \o ": " \o Str(Len(st.asserts)) \o ", expected present = " \o Str(ST!HasAsserts(S, n, o)))
  \cup (IF ST!HasAsserts(S, n, o) THEN Chk(Len(st.asserts) = Len(ST!Fields(S, n)) + 1, "number of layout assertions on " \o n \o " is " \o Str(Len(st.asserts))) ELSE {})
C09(c, o) ==
  IF ~ValidAll(o) \/ ~Projected(o) THEN [ dom |-> FALSE, fails |-> {}, m |-> MemoFor(c) ] ELSE
  LET m == MemoFor(c)
      kRest == "rest"
      kStructs == "structs|" \o ToString(ST!StructOptKey(c.opts))
      kAll == "all|" \o ToString(ST!StructOptKey(c.opts)) \o (IF Has(c.opts, "include") THEN c.opts.include ELSE "")
  IN [ dom |-> TRUE,
       fails |-> (IF HasS(c) THEN UNION { StructFails(c.S, c.opts, o.out.structs[i]) : i \in DOMAIN o.out.structs } ELSE {})
                 \cup SameOrNew(m, kRest, o.out.rest_sha, "an option changed output outside the struct definitions")
                 \cup SameOrNew(m, kStructs, o.out.structs_sha, "struct section differs although the struct options agree")
                 \cup SameOrNew(m, kAll, o.tokens_sha, "formatter / validation option changed the program"),
       m |-> MPut(MPut(MPut(m, kRest, o.out.rest_sha), kStructs, o.out.structs_sha), kAll, o.tokens_sha) ]

(* ------------------------------------------------------------------ C06 *)
StructFieldFails(S, st, mv) ==
  LET n == st.name IN
  IF n \notin StructNames(S) THEN {} ELSE
  LET ms == ST!Fields(S, n)
      fs == st.fields
  IN Chk([ i \in DOMAIN fs |-> fs[i].name ] = [ i \in DOMAIN ms |-> ms[i].name ],
         "fields of " \o n \o " are " \o ToJson([ i \in DOMAIN fs |-> fs[i].name ]) \o " but the WGSL members (without builtins) are " \o ToJson([ i \in DOMAIN ms |-> ms[i].name ]))
     \cup (IF Len(fs) = Len(ms)
           THEN UNION { Chk(RT!FieldOk(S, ms[i], fs[i], mv), "field " \o n \o "." \o ms[i].name \o " has Rust type " \o fs[i].ty \o " which does not denote WGSL " \o ToJson(ms[i].ty) \o " under " \o mv) : i \in DOMAIN ms }
                \cup UNION { Chk(fs[i].pub, "field " \o n \o "." \o fs[i].name \o " is not public") : i \in DOMAIN fs }
           ELSE {})
C06(c, o) ==
  IF ~(HasS(c) /\ ValidAll(o) /\ Projected(o)) THEN NoVerdict ELSE
  [ dom |-> TRUE, fails |-> UNION { StructFieldFails(c.S, o.out.structs[i], c.opts.mv) : i \in DOMAIN o.out.structs } ]

(* C10, static part: what encase serialises is decided by the field types; with encase + glam every member glam can represent must be *)
(* the glam type (an array or a narrower type is laid out differently by encase, also where the module cannot be executed)            *)
C10Static(c, o) ==
  IF ~(HasS(c) /\ ValidAll(o) /\ Projected(o) /\ c.opts.enc /\ c.opts.mv = "glam") THEN NoVerdict ELSE
  [ dom |-> TRUE, fails |->
      UNION { IF o.out.structs[i].name \in StructNames(c.S) /\ ST!HostShareable(c.S, o.out.structs[i].name)
              THEN { "encase + glam: " \o m : m \in StructFieldFails(c.S, o.out.structs[i], "glam") } ELSE {} : i \in DOMAIN o.out.structs } ]

(* ------------------------------------------------------------------ C05 (numbers carried by the assertions) *)
AssertSet(st) == { [ field |-> (IF Has(a, "field") THEN a.field ELSE "<size>"), n |-> a.n ] : a \in Range(st.asserts) }
ExpectedAssertSet(S, n) ==
  { [ field |-> x.field, n |-> Str(x.n) ] : x \in Range(ST!AssertOffsets(S, n)) } \cup { [ field |-> "<size>", n |-> Str(L!StructSize(S, n)) ] }
NagaAssertSet(o, n) ==
  LET lay == o.oracle.layout[n] IN
  { [ field |-> lay.offsets[i].name, n |-> Str(lay.offsets[i].off) ] : i \in DOMAIN lay.offsets } \cup { [ field |-> "<size>", n |-> Str(lay.size) ] }
C05Struct(S, o, st) ==
  LET n == st.name IN
  IF n \notin StructNames(S) \/ ~ST!HostShareable(S, n) THEN {} ELSE
  Chk(Len(st.asserts) > 0, "host-shareable struct " \o n \o " carries no layout assertions although bytemuck host-shareable derives are on")
  \cup (IF Len(st.asserts) > 0 THEN
          Chk(AssertSet(st) = ExpectedAssertSet(S, n), "layout assertions of " \o n \o " are " \o ToJson(AssertSet(st)) \o " but the WGSL layout rules give " \o ToJson(ExpectedAssertSet(S, n)))
          \cup Chk(Len(st.asserts) = Cardinality(AssertSet(st)), "duplicate layout assertion on " \o n)
          \cup Chk(\A a \in Range(st.asserts) : ~Has(a, "conditional"), "a layout assertion of " \o n \o " is compiled only under some configuration (#[cfg])")
          \cup Chk({ x \in NagaAssertSet(o, n) : x.field \in { y.field : y \in ExpectedAssertSet(S, n) } } = ExpectedAssertSet(S, n),
                   "ORACLE naga layout of " \o n \o " differs from Layout.tla: " \o ToJson(NagaAssertSet(o, n)) \o " vs " \o ToJson(ExpectedAssertSet(S, n)))
        ELSE {})
C05(c, o) ==
  IF ~(HasS(c) /\ ValidAll(o) /\ Projected(o) /\ c.opts.bmh) THEN NoVerdict ELSE
  [ dom |-> TRUE, fails |-> UNION { C05Struct(c.S, o, o.out.structs[i]) : i \in DOMAIN o.out.structs } ]

(* ------------------------------------------------------------------ compiled / executed modules *)

(* ------------------------------------------------------------------ C04 *)
C04(c, o) ==
  IF ~(HasS(c) /\ ValidAll(o) /\ RetOk(o) /\ Compiled(o) /\ Resources(c.S) # << >>) THEN NoVerdict ELSE
  LET evs == RtOf(o, "bindgroups") IN
  [ dom |-> TRUE, fails |->
      { "the generated bind group API cannot be used as documented: " \o m : m \in ProbeFail(o, "bindgroups") }
      \cup (IF ProbeFail(o, "bindgroups") = {} THEN
              Chk(evs # << >>, "no bind group API although the shader declares resources")
              \cup RUN!RunFails(c.S, evs) \cup RUN!FieldFails(c.S, evs)
            ELSE {}) ]

(* ------------------------------------------------------------------ C14 *)
EntEv(o, kind) == SelectSeq(RtOf(o, "entries"), LAMBDA e : e.ev = kind)
Count(s, P(_)) == Cardinality({ i \in DOMAIN s : P(s[i]) })
PadWg(w) == [ i \in 1 .. 3 |-> ToString(IF w[i] = 0 THEN 1 ELSE w[i]) ]
CtorFails(name, ev) ==
  LET lg == ev.log
      n == Len(lg) IN
  IF n < 3 THEN { "compute constructor for " \o name \o " made " \o Str(n) \o " device calls" } ELSE
  Chk(lg[1].ev = "rt.create_shader_module" /\ lg[1].source = TRUE, "compute constructor for " \o name \o " does not create the shader module from SOURCE first")
  \cup Chk(lg[n - 1].ev = "rt.create_pipeline_layout" /\ (\A i \in 2 .. (n - 2) : lg[i].ev = "rt.create_bgl"), "compute constructor for " \o name \o " does not build the module's own pipeline layout")
  \cup Chk(lg[n].ev = "rt.create_compute_pipeline" /\ Has(lg[n], "entry_point") /\ lg[n].entry_point = name, "compute constructor for " \o name \o " targets entry point " \o (IF Has(lg[n], "entry_point") THEN ToString(lg[n].entry_point) ELSE "none"))
  \cup Chk(lg[n].ev = "rt.create_compute_pipeline" /\ Has(lg[n], "layout") /\ lg[n].layout = lg[n - 1].id /\ lg[n].module = lg[1].id /\ ev.returned = lg[n].id,
           "compute constructor for " \o name \o " does not use its own shader module and pipeline layout")
RejectedAbout(o, flag) == Has(o, "compile") /\ o.compile.outcome = "reject" /\ flag \in Range(o.compile.flags)
C14(c, o) ==
  IF HasS(c) /\ ValidAll(o) /\ RetOk(o) /\ RejectedAbout(o, "entry")
  THEN [ dom |-> TRUE, fails |-> { "the module does not compile and the compiler points at the entry point items [predicted=" \o ToJson(CP!PredictedCauses(c.S, c.opts)) \o "]: " \o o.compile.errors[1] } ] ELSE
  (* a module the validator would refuse (validation is off by default) but the generator accepted and rustc compiled: only the   *)
  (* structural promise is judged - one buffer per struct parameter of every vertex entry                                        *)
  IF HasS(c) /\ ParseOk(o) /\ ~ValidAll(o) /\ c.opts.validate = "none" /\ RetOk(o) /\ Compiled(o) /\ ProbeFail(o, "entries") = {} THEN
    [ dom |-> TRUE, fails |->
        UNION { LET e == EN!EntriesOf(c.S, "vertex")[i]
                    m == SelectSeq(EntEv(o, "rt.vertex_entry"), LAMBDA x : x.fn = e.name \o "_entry")
                IN IF Len(m) # 1 THEN {}
                   ELSE Chk(Len(m[1].buffers) = Len(EN!StructParams(e)), "vertex helper of " \o e.name \o " has " \o Str(Len(m[1].buffers)) \o " buffers for " \o Str(Len(EN!StructParams(e))) \o " struct parameters")
                : i \in DOMAIN EN!EntriesOf(c.S, "vertex") } ] ELSE
  IF ~(HasS(c) /\ ValidAll(o) /\ RetOk(o) /\ Compiled(o)) THEN NoVerdict ELSE
  LET S == c.S
      E == S.entries
      consts == EntEv(o, "rt.entry_const")
      comp == EN!EntriesOf(S, "compute")
      wgs == EntEv(o, "rt.wg_size")
      ctors == EntEv(o, "rt.compute_ctor")
      orc == SelectSeq(o.oracle.entries, LAMBDA x : x.stage = "COMPUTE")
  IN [ dom |-> TRUE, fails |->
      { "the entry point API cannot be used as documented: " \o m : m \in ProbeFail(o, "entries") }
      \cup (IF ProbeFail(o, "entries") # {} THEN {} ELSE
        Chk(Len(consts) = Len(E), "number of ENTRY_ constants " \o Str(Len(consts)) \o " for " \o Str(Len(E)) \o " entry points")
        \cup UNION { Chk(Count(consts, LAMBDA k : k.value = E[i].name) = 1, "no unique constant exports the entry point name " \o E[i].name) : i \in DOMAIN E }
        \cup Chk([ i \in DOMAIN wgs |-> wgs[i].value ] = [ i \in DOMAIN orc |-> PadWg(orc[i].wg) ],
                 "workgroup size constants " \o ToJson([ i \in DOMAIN wgs |-> wgs[i].value ]) \o " expected " \o ToJson([ i \in DOMAIN orc |-> PadWg(orc[i].wg) ]))
        \cup UNION { Chk(x.buffers_len = 1 /\ x.buffers_same /\ x.constants_same /\ x.module_same /\ Has(x, "entry_point") /\ x.entry_point = "custom_entry",
                         "vertex_state does not forward the module, name, buffers and constants of the entry description it is given") : x \in Range(EntEv(o, "rt.vertex_state_custom")) }
        \cup UNION { Chk(x.targets_len = 2 /\ x.targets_same /\ x.constants_same /\ x.module_same /\ Has(x, "entry_point") /\ x.entry_point = "custom_entry",
                         "fragment_state does not forward the module, name, targets and constants of the entry description it is given") : x \in Range(EntEv(o, "rt.fragment_state_custom")) }
        \cup Chk(Len(ctors) = Len(comp), "number of compute pipeline constructors")
        \cup (IF Len(ctors) = Len(comp) THEN UNION { CtorFails(comp[i].name, ctors[i]) : i \in DOMAIN comp } ELSE {})
        \cup UNION { LET e == EN!EntriesOf(S, "fragment")[i]
                         m == SelectSeq(EntEv(o, "rt.fragment_entry"), LAMBDA x : x.fn = e.name \o "_entry")
                         st == SelectSeq(EntEv(o, "rt.fragment_state"), LAMBDA x : x.fn = e.name \o "_entry")
                     IN Chk(Len(m) = 1, "no fragment entry helper for " \o e.name)
                        \cup (IF Len(m) = 1 THEN
                                Chk(m[1].entry_point = e.name, "fragment helper of " \o e.name \o " names entry point " \o ToString(m[1].entry_point))
                                \cup Chk(m[1].targets = EN!TargetCount(S, e), "fragment helper of " \o e.name \o " asks for " \o Str(m[1].targets) \o " colour targets but needs " \o Str(EN!TargetCount(S, e)) \o " to address every @location it writes")
                              ELSE {})
                        \cup (IF Len(st) = 1 THEN Chk(st[1].module_same /\ st[1].targets_same /\ st[1].constants_same /\ Has(st[1], "entry_point") /\ st[1].entry_point = e.name, "fragment_state does not forward module, name, targets and constants unchanged for " \o e.name) ELSE { "fragment_state not exercised for " \o e.name })
                     : i \in DOMAIN EN!EntriesOf(S, "fragment") }
        \cup UNION { LET e == EN!EntriesOf(S, "vertex")[i]
                         m == SelectSeq(EntEv(o, "rt.vertex_entry"), LAMBDA x : x.fn = e.name \o "_entry")
                         st == SelectSeq(EntEv(o, "rt.vertex_state"), LAMBDA x : x.fn = e.name \o "_entry")
                     IN Chk(Len(m) = 1, "no vertex entry helper for " \o e.name)
                        \cup (IF Len(m) = 1 THEN
                                Chk(m[1].entry_point = e.name, "vertex helper of " \o e.name \o " names entry point " \o ToString(m[1].entry_point))
                                \cup Chk(Len(m[1].buffers) = Len(EN!StructParams(e)), "vertex helper of " \o e.name \o " has " \o Str(Len(m[1].buffers)) \o " buffers for " \o Str(Len(EN!StructParams(e))) \o " struct parameters")
                              ELSE {})
                        \cup (IF Len(st) = 1 THEN Chk(st[1].module_same /\ st[1].buffers_same /\ st[1].constants_same /\ Has(st[1], "entry_point") /\ st[1].entry_point = e.name, "vertex_state does not forward module, name, buffers and constants unchanged for " \o e.name) ELSE { "vertex_state not exercised for " \o e.name })
                     : i \in DOMAIN EN!EntriesOf(S, "vertex") }) ]

(* ------------------------------------------------------------------ C07 *)
LayoutEv(o, name) == SelectSeq(RtOf(o, "layout"), LAMBDA e : e.struct = name)
OffsOf(lay) == [ n \in { lay.offsets[i].name : i \in DOMAIN lay.offsets } |-> (CHOOSE x \in Range(lay.offsets) : x.name = n).off ]
AttrSet(as) == { [ format |-> a.format, location |-> a.location, offset |-> a.offset ] : a \in Range(as) }
ExpAttrSet(S, name, offs) ==
  { [ format |-> EN!VertexFormatOf(m.ty), location |-> m.io.n, offset |-> offs[m.name] ] : m \in Range(EN!LocMembers(S, name)) }
BufferFails(S, o, e, i, b, step) ==
  LET p == EN!StructParams(e)[i]
      lay == LayoutEv(o, p.ty)
  IN IF Len(lay) # 1 THEN { "PROJ no measured layout for vertex struct " \o p.ty } ELSE
     Chk(b.step = step, "buffer " \o Str(i) \o " of " \o e.name \o " does not carry the caller's step mode for parameter " \o p.name)
     \cup Chk(b.stride = lay[1].size, "stride of buffer " \o Str(i) \o " of " \o e.name \o " is " \o Str(b.stride) \o " but struct " \o p.ty \o " has size " \o Str(lay[1].size))
     \cup Chk(AttrSet(b.attrs) = ExpAttrSet(S, p.ty, OffsOf(lay[1])) /\ Len(b.attrs) = Len(EN!LocMembers(S, p.ty)),
              "attributes of " \o p.ty \o " in " \o e.name \o " are " \o ToJson(AttrSet(b.attrs)) \o " but the @location members give " \o ToJson(ExpAttrSet(S, p.ty, OffsOf(lay[1]))))
     \cup Chk(EN!VertexBufferOk(b.stride, Range(b.attrs)), "buffer layout of " \o p.ty \o " violates wgpu's vertex buffer rules (stride/offset alignment or bounds)")
C07(c, o) ==
  IF HasS(c) /\ ValidAll(o) /\ RetOk(o) /\ RejectedAbout(o, "vertex")
  THEN [ dom |-> TRUE, fails |-> { "the module does not compile and the compiler points at the vertex buffer items [predicted=" \o ToJson(CP!PredictedCauses(c.S, c.opts)) \o "]: " \o o.compile.errors[1] } ] ELSE
  IF ~(HasS(c) /\ ValidAll(o) /\ RetOk(o) /\ Compiled(o) /\ \E i \in DOMAIN c.S.entries : c.S.entries[i].stage = "vertex" /\ EN!StructParams(c.S.entries[i]) # << >>) THEN NoVerdict ELSE
  LET S == c.S IN
  [ dom |-> TRUE, fails |->
      { "the vertex entry API cannot be used as documented: " \o m : m \in ProbeFail(o, "entries") }
      \cup (IF ProbeFail(o, "entries") # {} THEN {} ELSE
        UNION { LET e == EN!EntriesOf(S, "vertex")[k]
                    m == SelectSeq(EntEv(o, "rt.vertex_entry"), LAMBDA x : x.fn = e.name \o "_entry")
                IN IF Len(m) # 1 THEN { "no vertex entry helper for " \o e.name }
                   ELSE IF Len(m[1].buffers) # Len(EN!StructParams(e)) THEN { "vertex helper of " \o e.name \o " has " \o Str(Len(m[1].buffers)) \o " buffers for " \o Str(Len(EN!StructParams(e))) \o " struct parameters" }
                   ELSE UNION { BufferFails(S, o, e, i, m[1].buffers[i], m[1].steps_given[i]) : i \in DOMAIN m[1].buffers }
                        \cup Chk(\A i, j \in DOMAIN m[1].buffers : \A a \in Range(m[1].buffers[i].attrs), b \in Range(m[1].buffers[j].attrs) : (a.location = b.location) => (i = j /\ a = b),
                                 "a shader location is used twice across the buffers of " \o e.name)
                : k \in DOMAIN EN!EntriesOf(S, "vertex") }
        \cup UNION { LET vs == EntEv(o, "rt.vertex_struct")[k] IN
                     Chk(Len(vs.layout) = 1 /\ vs.layout[1].stride = vs.size_of /\ vs.layout[1].step = "Instance" /\ AttrSet(vs.layout[1].attrs) = AttrSet(vs.attrs),
                         "vertex_buffer_layout of " \o vs.struct \o " is not (size_of, caller's step mode, VERTEX_ATTRIBUTES)")
                     : k \in DOMAIN EntEv(o, "rt.vertex_struct") }) ]

(* ------------------------------------------------------------------ C01 *)
C01(c, o) ==
  IF ~(ValidAll(o) /\ RetOk(o) /\ Has(o, "compile")) THEN NoVerdict ELSE
  LET bad == { o.compile.classes[i] : i \in DOMAIN o.compile.classes } \ CP!Permitted
      pred == IF HasS(c) THEN CP!PredictedCauses(c.S, c.opts) ELSE {}
  IN [ dom |-> TRUE, fails |->
       IF o.compile.outcome = "reject" /\ bad # {}
       THEN { "rejected by rustc for a reason other than the bytemuck layout checks [predicted=" \o ToJson(pred) \o "] classes " \o ToJson(bad) \o ": " \o o.compile.errors[1] }
       ELSE {} ]

(* ------------------------------------------------------------------ C05 soundness (compiled) *)
TwinOf(o, n) == SelectSeq(o.twin, LAMBDA e : e.struct = n)
WgslLayoutRec(S, n) ==
  [ size |-> L!StructSize(S, n), offs |-> { [ name |-> x.field, off |-> x.n ] : x \in Range(ST!AssertOffsets(S, n)) } ]
TwinLayoutRec(t) == [ size |-> t.size, offs |-> { [ name |-> x.name, off |-> x.off ] : x \in Range(t.offsets) } ]
C05Sound(c, o) ==
  IF ~(HasS(c) /\ ValidAll(o) /\ RetOk(o) /\ c.opts.bmh /\ Has(o, "compile") /\ Has(o, "twin")) THEN NoVerdict ELSE
  LET S == c.S
      hs == { n \in Emit(S) : ST!HostShareable(S, n) /\ ~ST!HasRts(S, n) }
      rej == Range(o.compile.rejected_structs)
  IN [ dom |-> TRUE, fails |->
       UNION { LET t == TwinOf(o, n) IN
               IF Len(t) # 1 THEN { "PROJ no twin layout measured for " \o n }
               ELSE Chk(n \in rej \/ TwinLayoutRec(t[1]) = WgslLayoutRec(S, n),
                        "struct " \o n \o " passes the layout assertions but its Rust layout " \o ToJson(TwinLayoutRec(t[1])) \o " differs from the WGSL layout " \o ToJson(WgslLayoutRec(S, n)))
                    \cup Chk(~(n \in rej /\ o.compile.outcome = "ok"), "inconsistent compile record")
               : n \in hs }
       \cup C05(c, o).fails ]

(* ------------------------------------------------------------------ C02 *)
EntryOf(o, r) ==
  LET gs == SelectSeq(o.out.groups, LAMBDA G : G.no = r.group /\ Has(G, "entries"))
  IN IF gs = << >> THEN << >> ELSE SelectSeq(gs[1].entries, LAMBDA e : e.binding = r.binding)
RuleErrors(S, o, r) ==
  LET es == EntryOf(o, r) IN
  IF Len(es) # 1 THEN { "no unique layout entry at @group(" \o r.group \o ") @binding(" \o r.binding \o ")" }
  ELSE LET e == es[1] IN
       Chk(WR!BglEntryError(e.ty) = "", "layout entry of " \o r.name \o " is rejected by create_bind_group_layout: " \o WR!BglEntryError(e.ty))
       \cup Chk(Vis(S, r.name) = {} \/ WR!BindingUseError(r, e.ty) = "", "layout entry of " \o r.name \o " (" \o ToJson(e.ty) \o ") is incompatible with its WGSL declaration " \o ToJson(r.ty) \o ": " \o WR!BindingUseError(r, e.ty))
       \cup Chk(Has(e, "vis") /\ Vis(S, r.name) \subseteq Range(e.vis), "binding " \o r.name \o " is not visible to a stage that uses it")
RealErrors(o) == { e \in Range(RtOf(o, "wgpu")) : Has(e, "err") /\ (e.call \in {"create_bind_group_layout", "create_pipeline_layout"} \/ e.binding_related) }
(* stages whose entry points all went through real pipeline creation in this run *)
ValidatedStages(o) ==
  LET ev == RtOf(o, "wgpu") IN
  (IF \E e \in Range(ev) : e.call = "create_compute_pipeline" THEN {"COMPUTE"} ELSE {})
  \cup (IF \E e \in Range(ev) : e.call = "create_render_pipeline" THEN {"VERTEX"} ELSE {})
  \cup (IF \E e \in Range(ev) : e.call = "create_render_pipeline" /\ Has(e, "fragment") /\ e.fragment # "null" THEN {"FRAGMENT"} ELSE {})
C02(c, o) ==
  (* raw sources (resource kinds the abstract shader cannot express): whatever module comes back must survive real wgpu *)
  IF ~HasS(c) /\ ValidAll(o) /\ Projected(o) /\ Compiled(o) THEN
    [ dom |-> RtOf(o, "wgpu") # << >>, fails |-> { "wgpu rejects " \o e.call \o ": " \o e.err : e \in RealErrors(o) } ] ELSE
  IF ~(HasS(c) /\ ValidAll(o) /\ Projected(o) /\ Compiled(o)) THEN NoVerdict ELSE
  LET S == c.S
      ruleOf == [ i \in DOMAIN Resources(S) |-> RuleErrors(S, o, Resources(S)[i]) ]
      rules == UNION { ruleOf[i] : i \in DOMAIN Resources(S) }
      real == RealErrors(o)
      ran == RtOf(o, "wgpu") # << >>
      (* resources with a predicted error whose using stages were all really validated: wgpu must have reported something *)
      covered == { i \in DOMAIN Resources(S) : ruleOf[i] # {} /\ Vis(S, Resources(S)[i].name) # {} /\ Vis(S, Resources(S)[i].name) \subseteq ValidatedStages(o) }
      uncovered == { i \in DOMAIN Resources(S) : ruleOf[i] # {} } \ covered
  IN [ dom |-> ran \/ (\E x \in Range(o.rt) : x.probe = "wgpu"), fails |->
       { "wgpu rejects " \o e.call \o ": " \o e.err \o (IF rules = {} THEN " [not predicted by WgpuRules.tla]" ELSE "") : e \in real }
       \cup { "the wgpu validation probe does not compile: " \o m : m \in ProbeFail(o, "wgpu") }
       \cup { "uncaptured wgpu error: " \o e.msg : e \in { x \in Range(o.rt) : x.ev = "probe.panic" /\ x.probe = "wgpu" } }
       \cup (IF ran /\ real = {} /\ covered # {} THEN { "ORACLE WgpuRules.tla predicts a rejection that real wgpu does not report: " \o m : m \in UNION { ruleOf[i] : i \in covered } } ELSE {})
       \cup (IF real = {} THEN { m \o " [by the transcribed wgpu rules; the using stage was not exercised by a real pipeline in this case]" : m \in UNION { ruleOf[i] : i \in uncovered } } ELSE {}) ]

(* ------------------------------------------------------------------ C10 *)
EncaseFails(S, e) ==
  LET n == e.struct
      kk == IF e.k < 0 THEN 0 ELSE e.k
      want == L!StructPositions(S, n, kk)
      got == e.positions
      tag == IF L!HasExplicitLayoutAttrs(S, n) THEN " [explicit-layout-attrs]" ELSE ""
  IN Chk(e.len = L!ImageLen(S, n, kk), "encase (" \o e.writer \o ") wrote " \o Str(e.len) \o " bytes for " \o n \o " (runtime elements " \o Str(e.k) \o ") but the WGSL size is " \o Str(L!ImageLen(S, n, kk)) \o tag)
     \cup Chk(Len(got) = Len(want) /\ \A i \in DOMAIN got : want[i] \in Range(got[i]),
              "encase (" \o e.writer \o ") placed the components of " \o n \o " at " \o ToJson(got) \o " but the WGSL offsets are " \o ToJson(want) \o tag)
(* the statement covers member types glam can represent: scalars, vec2-4, square matrices, arrays / structs / runtime arrays of those *)
RECURSIVE GlamTy(_, _)
GlamTy(S, t) ==
  CASE t.k \in {"scalar", "atomic", "vec"} -> t.s \in {"f32", "i32", "u32", "f64"}
    [] t.k = "mat" -> t.c = t.r /\ t.s \in {"f32", "f64"}
    [] t.k \in {"array", "rtarray"} -> GlamTy(S, t.e)
    [] t.k = "struct" -> \A m \in Range(StructDef(S, t.name).members) : GlamTy(S, m.ty)
    [] OTHER -> FALSE
C10(c, o) ==
  IF HasS(c) /\ ValidAll(o) /\ RetOk(o) /\ c.opts.enc /\ c.opts.mv = "glam" /\ Has(o, "compile") /\ o.compile.outcome = "reject"
     /\ (Range(o.compile.classes) \ CP!Permitted) # {}
     /\ (\A n \in { x \in Emit(c.S) : ST!HostShareable(c.S, x) } : GlamTy(c.S, [ k |-> "struct", name |-> n ]))
     (* input classes whose compile failure has nothing to do with the host-shareable structs (C01's findings) are outside C10 *)
     /\ CP!PredictedCauses(c.S, c.opts) \cap {"ImplWithoutType", "DuplicateParam", "KeywordIdent", "NameClash", "EntryConstClash", "ConstShadowsLocal", "EmptyEncaseStruct", "DuplicateMember"} = {}
  THEN [ dom |-> TRUE, fails |-> { "the encase + glam module does not compile [predicted=" \o ToJson(CP!PredictedCauses(c.S, c.opts)) \o "]: " \o o.compile.errors[1] } ] ELSE
  IF ~(HasS(c) /\ ValidAll(o) /\ RetOk(o) /\ Compiled(o) /\ c.opts.enc /\ c.opts.mv = "glam") THEN NoVerdict ELSE
  LET evs == SelectSeq(RtOf(o, "encase"), LAMBDA e : e.ev = "rt.encase") IN
  [ dom |-> RtOf(o, "encase") # << >> \/ ProbeFail(o, "encase") # {}, fails |->
      { "a value of the generated struct cannot be written with encase: " \o m : m \in ProbeFail(o, "encase") }
      \cup (IF \A n \in { x \in Emit(c.S) : ST!HostShareable(c.S, x) } : GlamTy(c.S, [ k |-> "struct", name |-> n ])
            THEN { "writing a value through encase panicked: " \o e.msg : e \in { x \in Range(o.rt) : x.ev = "probe.panic" /\ x.probe = "encase" } }
            ELSE {})
      \cup UNION { IF GlamTy(c.S, [ k |-> "struct", name |-> evs[i].struct ]) THEN EncaseFails(c.S, evs[i]) ELSE {} : i \in DOMAIN evs } ]

(* ------------------------------------------------------------------ C12 *)
ArrayLenOverride(S) == \E i \in DOMAIN S.globals : S.globals[i].ty.k = "array" /\ Has(S.globals[i].ty, "len")
WgOverride(S) == \E i \in DOMAIN S.entries : S.entries[i].stage = "compute" /\ \E w \in Range(S.entries[i].wg) : \E k \in DOMAIN S.overrides : S.overrides[k].name = w
C12(c, o) ==
  IF HasS(c) /\ ValidAll(o) /\ RetOk(o) /\ RejectedAbout(o, "override")
  THEN [ dom |-> TRUE, fails |-> { "the module does not compile and the compiler points at the override constants [predicted=" \o ToJson(CP!PredictedCauses(c.S, c.opts)) \o "]: " \o o.compile.errors[1] } ] ELSE
  IF ~(HasS(c) /\ ValidAll(o) /\ RetOk(o) /\ Compiled(o) /\ c.S.overrides # << >>) THEN NoVerdict ELSE
  LET S == c.S
      fs == IF Has(o.out, "overrides") THEN o.out.overrides.fields ELSE << >>
      runs == SelectSeq(RtOf(o, "overrides"), LAMBDA e : e.ev = "rt.constants")
      res == SelectSeq(RtOf(o, "overrides"), LAMBDA e : e.ev = "rt.resolve")
      helpers == SelectSeq(RtOf(o, "entries"), LAMBDA e : e.ev \in {"rt.vertex_entry", "rt.fragment_entry", "rt.entry_again"})
  IN [ dom |-> TRUE, fails |->
      Chk([ i \in DOMAIN fs |-> [ name |-> fs[i].name, ty |-> fs[i].ty ] ] = [ i \in DOMAIN S.overrides |-> [ name |-> S.overrides[i].name, ty |-> CO!FieldType(S.overrides[i]) ] ],
          "fields of OverrideConstants are " \o ToJson([ i \in DOMAIN fs |-> [ name |-> fs[i].name, ty |-> fs[i].ty ] ]) \o " for overrides " \o ToJson([ i \in DOMAIN S.overrides |-> [ name |-> S.overrides[i].name, ty |-> CO!FieldType(S.overrides[i]) ] ]))
      \cup { "OverrideConstants cannot be used as documented: " \o m : m \in ProbeFail(o, "overrides") }
      \cup (IF ProbeFail(o, "overrides") = {} /\ [ i \in DOMAIN fs |-> fs[i].name ] = [ i \in DOMAIN S.overrides |-> S.overrides[i].name ] THEN
              (* an override that sizes a workgroup array makes naga's own override resolution overflow on the probe's extreme values: only the map is judged then *)
              Chk((Len(runs) > 0 /\ Len(res) = Len(runs)) \/ ArrayLenOverride(S), "PROJ constants() was not exercised")
              \cup UNION { Chk(CO!MapOk(S, runs[i].assign, runs[i].map), "constants() returned " \o ToJson(runs[i].map) \o " for the assignment " \o ToJson(runs[i].assign) \o "; expected " \o ToJson(CO!ExpectedMap(S, runs[i].assign))
                                                                               \o (IF CP!ConstShadowsLocal(S) THEN " [predicted=[\"ConstShadowsLocal\"]]" ELSE "")) : i \in DOMAIN runs }
              \cup (IF Len(res) = Len(runs) THEN
                      (* an override that gives a workgroup dimension must be positive: the probe's zero / huge values are the caller's mistake, not the map's *)
                      UNION { Chk(res[i].ok \/ WgOverride(S), "the shader compiler's override resolution rejects the map: " \o (IF Has(res[i], "err") THEN res[i].err ELSE ""))
                              \cup (IF res[i].ok THEN Chk(CO!ResolvedOk(S, runs[i].assign, res[i].resolved), "an override did not resolve to the supplied value: " \o ToJson(res[i].resolved) \o " for " \o ToJson(runs[i].assign) \o (IF CP!ConstShadowsLocal(S) THEN " [predicted=[\"ConstShadowsLocal\"]]" ELSE "")) ELSE {})
                              : i \in DOMAIN runs }
                    ELSE {})
            ELSE {})
      \cup UNION { Chk(helpers[i].constants_eq_overrides, "entry helper " \o helpers[i].fn \o " does not pass the override map through unchanged") : i \in DOMAIN helpers } ]

(* ------------------------------------------------------------------ C15 *)
ConstSet(o) == { [ name |-> e.name, type_name |-> e.type_name, canon |-> e.canon ] : e \in Range(RtOf(o, "consts")) }
StaticConstSet(o) == { [ name |-> e.name, type_name |-> e.ty, canon |-> IF Has(e, "canon") THEN e.canon ELSE "?" ] : e \in Range(o.out.consts) }
C15(c, o) ==
  (* a constant named like a local binding of the generated functions breaks THOSE functions (C01, Compile.tla ConstShadowsLocal), not the constant *)
  (* such modules are judged on the static projection (value of the literal as the compiler reads it) *)
  IF ValidAll(o) /\ RetOk(o) /\ Has(o, "compile") /\ o.compile.outcome = "reject" /\ HasS(c) /\ CP!ConstShadowsLocal(c.S) THEN
     IF ~Projected(o) THEN NoVerdict ELSE
     [ dom |-> TRUE, fails |->
         Chk(StaticConstSet(o) = CO!ExpectedConsts(o.oracle.consts) /\ Len(o.out.consts) = Cardinality(StaticConstSet(o)) /\ \A k \in Range(o.out.consts) : k.pub,
             "exported constants (static) " \o ToJson(StaticConstSet(o) \ CO!ExpectedConsts(o.oracle.consts)) \o " differ from the constant-evaluated WGSL values " \o ToJson(CO!ExpectedConsts(o.oracle.consts) \ StaticConstSet(o))) ]
  ELSE
  IF ValidAll(o) /\ RetOk(o) /\ Has(o, "compile") /\ o.compile.outcome = "reject" /\ (\E i \in DOMAIN o.compile.classes : o.compile.classes[i] \notin {"LayoutAssert", "PodPadding"})
  THEN [ dom |-> TRUE, fails |-> { "the exported constants do not type-check: " \o o.compile.errors[1] } ] ELSE
  IF ~(ValidAll(o) /\ RetOk(o) /\ Compiled(o)) THEN NoVerdict ELSE
  [ dom |-> TRUE, fails |->
      { "exported constants cannot be read: " \o m : m \in ProbeFail(o, "consts") }
      \cup (IF ProbeFail(o, "consts") = {} THEN
              Chk(ConstSet(o) = CO!ExpectedConsts(o.oracle.consts) /\ Len(RtOf(o, "consts")) = Cardinality(ConstSet(o)),
                  "exported constants " \o ToJson(ConstSet(o) \ CO!ExpectedConsts(o.oracle.consts)) \o " differ from the constant-evaluated WGSL values " \o ToJson(CO!ExpectedConsts(o.oracle.consts) \ ConstSet(o)))
            ELSE {})
      \cup { "ORACLE no evaluated value for the scalar constant " \o k.name : k \in CO!Unevaluated(o.oracle.consts) }
      \cup (IF HasS(c) THEN
              UNION { LET k == c.S.consts[i] IN
                      IF Has(k, "expect") THEN Chk(\E x \in CO!ExpectedConsts(o.oracle.consts) : x.name = k.name /\ x.canon = k.expect,
                                                   "ORACLE naga evaluates constant " \o k.name \o " differently from the harness (" \o k.expect \o ")")
                      ELSE {} : i \in DOMAIN c.S.consts }
            ELSE {}) ]

(* ------------------------------------------------------------------ C16 *)
C16(c, o) ==
  (* a valid shader whose text the generator cannot embed: it panics, or hands back something that is not a Rust module *)
  IF HasS(c) /\ ParseOk(o) /\ ValidAll(o) /\ ~ST!DocumentedPanic(c.S, c.opts) /\ BGD!Contract(Decls(c.S), [ kind |-> "ok" ])
     /\ (o.ret.kind = "panic" \/ (RetOk(o) /\ Has(o, "parsed") /\ ~o.parsed))
  THEN [ dom |-> TRUE, m |-> MemoFor(c),
         fails |-> { IF o.ret.kind = "panic" THEN "generation panicked on a valid source (" \o o.ret.msg \o "): SOURCE cannot hold this text"
                     ELSE "the returned text is not a Rust module, SOURCE cannot be evaluated: " \o (IF Has(o, "parse_err") THEN o.parse_err ELSE "") } ] ELSE
  (* whenever a module comes back - even for a source the front end would refuse - its SOURCE must be the input *)
  IF ~Projected(o) THEN [ dom |-> FALSE, fails |-> {}, m |-> MemoFor(c) ] ELSE
  LET m == MemoFor(c)
      src == o.out.source
      inc == Has(c.opts, "include")
      rt == RtOf(o, "source")
  IN [ dom |-> TRUE, m |-> MPut(m, "nosource", o.out.nosource_sha),
       fails |->
         (IF inc
          THEN Chk(Has(src, "kind") /\ src.kind = "include_str" /\ Has(src, "path") /\ src.path = c.opts.include,
                   "SOURCE is not include_str! of exactly the given path " \o c.opts.include \o ": " \o ToJson(src))
          ELSE Chk(Has(src, "kind") /\ src.kind = "embedded" /\ src.eq_input, "SOURCE does not evaluate to the input string (embedded literal of " \o ToJson(src) \o ", input " \o Str(c.src_len) \o " bytes)"))
         \cup SameOrNew(m, "nosource", o.out.nosource_sha, "include and embedded variants differ outside SOURCE")
         \cup UNION { Chk((e.ev = "rt.source" => e.eq) /\ (e.ev = "rt.shader_module" => (e.source_eq /\ e.label_none /\ e.returned)) /\ e.ev # "rt.unexpected",
                          "compiled module: " \o ToJson(e)) : e \in Range(rt) }
         \cup { "SOURCE / create_shader_module cannot be used as documented: " \o x : x \in ProbeFail(o, "source") } ]

(* ------------------------------------------------------------------ C07: wgpu's own vertex-buffer / vertex-input validation *)
C07W(c, o) ==
  IF ~(HasS(c) /\ ValidAll(o) /\ RetOk(o) /\ Compiled(o) /\ \E i \in DOMAIN c.S.entries : c.S.entries[i].stage = "vertex" /\ EN!StructParams(c.S.entries[i]) # << >>) THEN NoVerdict ELSE
  LET ev == SelectSeq(RtOf(o, "wgpu"), LAMBDA e : e.call = "create_render_pipeline")
      (* documented limitation: located vertex inputs outside a struct get no buffer (README TODO) *)
      looseLoc == \E i \in DOMAIN c.S.entries : c.S.entries[i].stage = "vertex" /\ \E p \in Range(c.S.entries[i].params) : p.k = "loc"
  IN
  IF looseLoc THEN NoVerdict ELSE
  [ dom |-> ev # << >>, fails |->
      { "wgpu rejects the vertex buffer layouts of " \o e.vertex \o ": " \o e.err : e \in { x \in Range(ev) : Has(x, "err") /\ x.vertex_related } } ]

(* C09 on the compiled structs: the traits rustc finds implemented *)
C09R(c, o) ==
  IF ~(HasS(c) /\ ValidAll(o) /\ RetOk(o) /\ Compiled(o)) THEN NoVerdict ELSE
  LET evs == RtOf(o, "impls") IN
  [ dom |-> evs # << >>, fails |->
      { "trait implementations cannot be probed: " \o m : m \in ProbeFail(o, "impls") }
      \cup UNION { LET e == evs[i] IN
                   IF e.struct \notin StructNames(c.S) THEN {} ELSE
                   Chk(Range(e.impls) = ST!Derives(c.S, e.struct, c.opts),
                       "struct " \o e.struct \o " implements " \o ToJson(Range(e.impls)) \o " but the options prescribe " \o ToJson(ST!Derives(c.S, e.struct, c.opts)))
                   : i \in DOMAIN evs } ]

(* ------------------------------------------------------------------ C17 *)
Renders(o) == Has(o, "renders") /\ o.renders.to_string.ok /\ o.renders.to_string_with_path.ok /\ o.renders.to_stderr.ok
C17(c, o) ==
  LET m == MemoFor(c)
      k == "c17|" \o ToString([ c.opts EXCEPT !.validate = "" ])
  IN
  IF ~ParseOk(o) THEN
    [ dom |-> TRUE, m |-> m, fails |->
        Chk(ph = << >>, "generation phases ran on a source the front end rejects: " \o ToJson(ph))
        \cup Chk(o.ret.kind # "panic", "panic on a source the front end rejects: " \o (IF Has(o.ret, "msg") THEN o.ret.msg ELSE ""))
        \cup Chk(o.ret.kind # "ok", "Ok returned for a source the front end rejects")
        \cup (IF o.ret.kind = "err" THEN
                 Chk(o.ret.err = "ParseError", "front end rejects the source but the error is " \o o.ret.err)
                 \cup (IF o.ret.err = "ParseError" THEN Chk(o.ret.msg = o.oracle.parse.msg, "parse error does not carry the front end's diagnostic") ELSE {})
                 \cup Chk(Renders(o), "rendering the error against the source panicked")
               ELSE {}) ]
  ELSE IF ValidatorRejects(c, o) THEN
    [ dom |-> TRUE, m |-> m, fails |->
        (* Caps.tla as the second oracle of the gate: a module that is valid with every capability is refused only for a missing capability *)
        (IF HasS(c) /\ ValidAll(o) /\ CAP!GateAccepts(c.S, c.opts.validate)
         THEN { "ORACLE the validator refuses this module under " \o c.opts.validate \o " but Caps.tla says it needs only " \o ToJson(CAP!RequiredCaps(c.S)) } ELSE {})
        \cup
        Chk(ph = << "parsed" >>, "phases before the validation gate: " \o ToJson(ph) \o " (expected only parsed)")
        \cup Chk(o.ret.kind # "panic", "panic on a module the validator rejects: " \o (IF Has(o.ret, "msg") THEN o.ret.msg ELSE ""))
        \cup Chk(o.ret.kind # "ok", "Ok returned for a module the validator rejects")
        \cup (IF o.ret.kind = "err" THEN
                 Chk(o.ret.err = "ValidationError", "validator rejects the module but the error is " \o o.ret.err)
                 \cup (IF o.ret.err = "ValidationError" THEN Chk(o.ret.msg = o.oracle.valid_req.display, "validation error differs from the validator's") ELSE {})
                 \cup Chk(Renders(o), "rendering the error against the source panicked")
               ELSE {}) ]
  ELSE
    (* the source passes the gates that were requested: validation must change nothing *)
    [ dom |-> TRUE,
      fails |-> (IF HasS(c) /\ ValidAll(o) /\ c.opts.validate # "none" /\ ~CAP!GateAccepts(c.S, c.opts.validate)
                 THEN { "ORACLE the validator accepts this module under " \o c.opts.validate \o " but Caps.tla says it needs " \o ToJson(CAP!RequiredCaps(c.S)) } ELSE {})
                \cup Chk(~(o.ret.kind = "err" /\ o.ret.err \in {"ParseError", "ValidationError"}), "parse/validation error for a source that passes: " \o (IF Has(o.ret, "display") THEN o.ret.display ELSE ""))
                \cup (IF RetOk(o) THEN Chk(ph = PhaseSeq, "HOOK phase events of a successful call are " \o ToJson(ph)) ELSE {})
                \cup SameOrNew(m, k, IF RetOk(o) THEN o.text_sha ELSE o.ret.kind, "enabling validation changed the result"),
      m |-> MPut(m, k, IF RetOk(o) THEN o.text_sha ELSE o.ret.kind) ]

(* ------------------------------------------------------------------ C18 *)
RetSig(o) == IF RetOk(o) THEN o.text_sha ELSE IF o.ret.kind = "err" THEN "err:" \o o.ret.display ELSE "panic"
C18(c, o) ==
  LET m == MemoFor(c)
      (* whether a working formatter is installed is part of the environment of a call, not of its history: calls that find one (however slow) *)
      (* agree with each other, and so do calls that find none or a failing one, whatever happened in earlier calls of the process             *)
      env == IF ~Has(c, "fmt_plan") \/ c.fmt_plan \in {"ok", "slow", "very_slow"} THEN "" ELSE "|formatter-fails"
      k == "c18|" \o ToString(c.opts) \o env
  IN [ dom |-> TRUE,
       fails |-> SameOrNew(m, k, RetSig(o), "two calls with equal source and options returned different results" \o (IF Has(c, "fmt_plan") THEN " (formatter plan of this call: " \o c.fmt_plan \o ")" ELSE ""))
                 \cup (IF Has(o, "repeat_same") THEN Chk(o.repeat_same, "repeated calls in one process returned different text") ELSE {})
                 \cup Chk(~Has(o, "env_changed"), "the call changed the environment of the calling process: " \o (IF Has(o, "env_changed") THEN ToJson(o.env_changed) ELSE ""))
                 \cup Chk(~Has(o, "zombie"), "the call left a formatter process behind that it did not wait for (state outside the call changed)"),
       m |-> MPut(m, k, RetSig(o)) ]

(* ------------------------------------------------------------------ refinement of the operational models (DRIFT, not a property) *)
HkOf(kind) == SelectSeq(hk, LAMBDA e : e.ev = kind)
ScanPrefix(S) ==
  LET d == Decls(S)
      dups == BGD!DupIdx(d)
      n == IF dups = {} THEN Len(d) ELSE BGD!Min(dups)
  IN [ i \in 1 .. n |-> << Resources(S)[i].group, Resources(S)[i].binding >> ]
CONF(c, o) ==
  (* documented panics of the generator (Structs.tla): runtime-sized arrays without encase / with bytemuck / not last *)
  IF HasS(c) /\ ValidAll(o) /\ o.ret.kind \in {"ok", "panic"} /\ BGD!Contract(Decls(c.S), [ kind |-> "ok" ]) /\ (o.ret.kind = "panic") # ST!DocumentedPanic(c.S, c.opts)
  THEN [ dom |-> TRUE, fails |-> { "DRIFT generator " \o (IF o.ret.kind = "panic" THEN "panicked (" \o o.ret.msg \o ")" ELSE "returned Ok") \o " but Structs.tla DocumentedPanic = " \o Str(ST!DocumentedPanic(c.S, c.opts)) } ] ELSE
  IF ~(HasS(c) /\ ParseOk(o) /\ o.ret.kind # "panic" /\ ~ValidatorRejects(c, o)) THEN NoVerdict ELSE
  LET S == c.S
      typed == o.ret.kind = "err" /\ o.ret.err \in {"DuplicateBinding", "NonConsecutiveBindGroups"}
      res == IF typed /\ o.ret.err = "DuplicateBinding" THEN [ kind |-> "dup", binding |-> o.ret.binding ] ELSE [ kind |-> "nonconsecutive" ]
      scans == [ i \in DOMAIN HkOf("bgd.scan") |-> << HkOf("bgd.scan")[i].group, HkOf("bgd.scan")[i].binding >> ]
      walks == [ i \in DOMAIN HkOf("stage.walk") |-> HkOf("stage.walk")[i].fn ]
      model == Run(S, StInit(S), CodeParams(TRUE))
  IN [ dom |-> TRUE, fails |->
       Chk(scans = ScanPrefix(S), "DRIFT scan order " \o ToJson(scans) \o " differs from the declaration-order scan of BindGroupData.tla " \o ToJson(ScanPrefix(S)))
       \cup Chk((Len(HkOf("bgd.density")) = 1) = ~BGD!HasDup(Decls(S)), "DRIFT density test executed = " \o Str(Len(HkOf("bgd.density"))) \o " with duplicates = " \o Str(BGD!HasDup(Decls(S))))
       \cup (IF typed THEN
               Chk(o.ret.display = BGD!ErrorText(res), "DRIFT error text " \o o.ret.display \o " differs from BindGroupData.tla " \o BGD!ErrorText(res))
               \cup Chk(Has(o, "renders") /\ o.renders.to_string.ok /\ o.renders.to_string.text = BGD!ErrorText(res)
                        /\ o.renders.to_string_with_path.ok /\ o.renders.to_string_with_path.text = BGD!ErrorTextWithPath(res, "shader.wgsl"),
                        "DRIFT rendering of a typed error differs from `<path>: <text>`")
             ELSE {})
       \cup (IF RetOk(o) THEN
               Chk(walks = model.log, "DRIFT function walks " \o ToJson(walks) \o " differ from Stages.tla " \o ToJson(model.log))
               \cup Chk([ i \in DOMAIN HkOf("stage.entry") |-> HkOf("stage.entry")[i].entry ] = [ i \in DOMAIN S.entries |-> S.entries[i].name ], "DRIFT entry order")
               \cup Chk(Len(HkOf("types.visit")) = TC!RunClosure(S, TRUE).work, "DRIFT type visits " \o Str(Len(HkOf("types.visit"))) \o " but TypeClosure.tla makes " \o Str(TC!RunClosure(S, TRUE).work))
               \cup Chk(o.work[1] = model.walks /\ o.work[3] = TC!RunClosure(S, TRUE).work, "DRIFT work counters " \o ToJson(o.work) \o " vs model walks " \o Str(model.walks))
             ELSE {}) ]

(* ------------------------------------------------------------------ the whole output against Output.tla (DRIFT, not a property) *)
ObsField(f) == [ name |-> f.name, flat |-> f.flat, attrs |-> f.attrs ]
ObsStruct(st) == [ name |-> st.name, derives |-> st.derives, repr_c |-> st.repr_c, fields |-> [ i \in DOMAIN st.fields |-> ObsField(st.fields[i]) ], n_asserts |-> Len(st.asserts) ]
ObsEntryTy(t) ==
  CASE t.k = "buffer" -> IF t.bty = "uniform" THEN [ k |-> "buffer", bty |-> "uniform" ] ELSE [ k |-> "buffer", bty |-> t.bty, ro |-> t.ro ]
    [] t.k = "texture" -> [ k |-> "texture", sample |-> t.sample, dim |-> t.dim, multi |-> t.multi ]
    [] t.k = "storage_texture" -> [ k |-> "storage_texture", access |-> t.access, format |-> t.format, dim |-> t.dim ]
    [] t.k = "sampler" -> [ k |-> "sampler", ty |-> t.ty ]
    [] OTHER -> t
LabelOf(v) == IF Has(v, "args") /\ Len(v.args) = 1 /\ Has(v.args[1], "$str") THEN v.args[1]["$str"] ELSE "?"
ObsGroup(G) ==
  [ no |-> G.no,
    fields |-> [ i \in DOMAIN G.fields |-> [ name |-> G.fields[i].name, kind |-> G.fields[i].kind ] ],
    entries |-> [ i \in DOMAIN G.entries |-> [ binding |-> G.entries[i].binding, vis |-> Range(G.entries[i].vis), ty |-> ObsEntryTy(G.entries[i].ty) ] ],
    layout_label |-> LabelOf(G.label), group_label |-> LabelOf(G.from_bindings.label), set_index |-> G.set.index ]
BufferDefaultsOk(G) == \A e \in Range(G.entries) : e.count = "None" /\ (e.ty.k = "buffer" => (e.ty.dyn = FALSE /\ e.ty.min = "None"))
WholeOut(c, o) ==
  IF ~(HasS(c) /\ ValidAll(o) /\ Projected(o)) THEN NoVerdict ELSE
  LET S == c.S
      opts == c.opts
      constNames == LET ex == SelectSeq(o.oracle.consts, LAMBDA k : k \in CO!Exported(o.oracle.consts)) IN [ i \in DOMAIN ex |-> ex[i].name ]
      es == OUT!EmittedStructs(S)
      order == RUN!GroupOrder(S)
  IN [ dom |-> TRUE, fails |->
       Chk(OUT!ItemsOk(S, opts, constNames, o.out.items), "DRIFT items " \o ToJson(o.out.items) \o " differ from the sections of Output.tla (before: " \o ToJson(OUT!ExpectedItemsBefore(S, opts, constNames)) \o ", after: " \o ToJson(OUT!ExpectedItemsAfter(S)) \o ")")
       \cup Chk(Len(o.out.structs) = Len(es), "DRIFT number of structs")
       \cup (IF Len(o.out.structs) = Len(es) THEN
               UNION { Chk(ObsStruct(o.out.structs[i]) = OUT!ExpectedStruct(S, es[i].name, opts),
                           "DRIFT struct " \o ToJson(ObsStruct(o.out.structs[i])) \o " differs from Output.tla " \o ToJson(OUT!ExpectedStruct(S, es[i].name, opts))) : i \in DOMAIN es }
             ELSE {})
       \cup Chk(Len(o.out.groups) = Len(order), "DRIFT number of bind groups")
       \cup (IF Len(o.out.groups) = Len(order) THEN
               UNION { Chk(ObsGroup(o.out.groups[i]) = OUT!ExpectedGroup(S, order[i]) /\ BufferDefaultsOk(o.out.groups[i]),
                           "DRIFT bind group " \o ToJson(ObsGroup(o.out.groups[i])) \o " differs from Output.tla " \o ToJson(OUT!ExpectedGroup(S, order[i]))) : i \in DOMAIN order }
             ELSE {})
       \cup (IF S.overrides # << >> THEN
               Chk(Has(o.out, "overrides") /\ [ i \in DOMAIN o.out.overrides.fields |-> [ name |-> o.out.overrides.fields[i].name, ty |-> o.out.overrides.fields[i].ty ] ] = OUT!ExpectedOverrideFields(S), "DRIFT OverrideConstants fields")
             ELSE Chk(~Has(o.out, "overrides"), "DRIFT OverrideConstants emitted without overrides"))
       \cup Chk([ i \in DOMAIN o.out.entry_consts |-> [ const |-> o.out.entry_consts[i].const, value |-> o.out.entry_consts[i].value ] ] = OUT!ExpectedEntryConsts(S), "DRIFT entry constants " \o ToJson(o.out.entry_consts))
       \cup Chk(Len(o.out.compute) = Len(OUT!ExpectedCompute(S)) /\ Len(o.out.wg_sizes) = Len(OUT!ExpectedCompute(S)), "DRIFT number of compute items")
       \cup (IF Len(o.out.compute) = Len(OUT!ExpectedCompute(S)) /\ Len(o.out.wg_sizes) = Len(OUT!ExpectedCompute(S)) THEN
               UNION { LET x == OUT!ExpectedCompute(S)[i]
                           cc == o.out.compute[i] IN
                       Chk(o.out.wg_sizes[i].const = x.wg_const /\ cc.fn = x.ctor /\ LabelOf(cc.desc.label) = x.label /\ LabelOf(cc.desc.entry_point) = x.entry,
                           "DRIFT compute item " \o ToJson([ wg |-> o.out.wg_sizes[i].const, fn |-> cc.fn, label |-> LabelOf(cc.desc.label) ]) \o " expected " \o ToJson(x)) : i \in DOMAIN o.out.compute }
             ELSE {})
       \cup Chk({ [ name |-> v.name, count |-> v.count, attrs |-> [ j \in DOMAIN v.attrs |-> [ format |-> v.attrs[j].format, location |-> v.attrs[j].location, offset_struct |-> v.attrs[j].offset_struct, offset_field |-> v.attrs[j].offset_field ] ] ] : v \in Range(o.out.vertex_structs) }
                 = { OUT!ExpectedVertexImpl(S, n) : n \in OUT!VertexInputStructs(S) } /\ Len(o.out.vertex_structs) = Cardinality(OUT!VertexInputStructs(S)),
                 "DRIFT vertex impl blocks " \o ToJson(o.out.vertex_structs))
       \cup Chk(Has(o.out, "pipeline_layout") /\ o.out.pipeline_layout.bgls = OUT!ExpectedPipelineBgls(S, order), "DRIFT pipeline layout group list")
       \cup Chk(Has(o.out, "source") /\ o.out.source.kind = (IF Has(opts, "include") THEN "include_str" ELSE "embedded"), "DRIFT SOURCE kind")
       \cup UNION { LET e == EN!EntriesOf(S, "vertex")[i]
                        k == "fn " \o e.name \o "_entry"
                    IN IF ~Has(o.out.fns, k) THEN { "DRIFT vertex entry helper of " \o e.name \o " missing" }
                       ELSE Chk([ j \in DOMAIN o.out.fns[k].params |-> o.out.fns[k].params[j].name ] = OUT!VertexEntryParams(S, e),
                                "DRIFT parameters of " \o k \o ": " \o ToJson([ j \in DOMAIN o.out.fns[k].params |-> o.out.fns[k].params[j].name ]) \o " expected " \o ToJson(OUT!VertexEntryParams(S, e)))
                    : i \in DOMAIN EN!EntriesOf(S, "vertex") } ]

(* ------------------------------------------------------------------ dispatch *)
Judge0(c, o) ==
  CASE Enforce = "C11" -> C11(c, o)
    [] Enforce = "C03" -> C03(c, o)
    [] Enforce = "C03R" -> C03R(c, o)
    [] Enforce = "C09R" -> C09R(c, o)
    [] Enforce = "C13R" -> C13R(c, o)
    [] Enforce = "C08" -> C08(c, o)
    [] Enforce = "C20" -> C20(c, o)
    [] Enforce = "C13" -> C13(c, o)
    [] Enforce = "C06" -> C06(c, o)
    [] Enforce = "C05" -> C05(c, o)
    [] Enforce = "C05S" -> C05Sound(c, o)
    [] Enforce = "C01" -> C01(c, o)
    [] Enforce = "C10" -> C10(c, o)
    [] Enforce = "C10S" -> C10Static(c, o)
    [] Enforce = "C02" -> C02(c, o)
    [] Enforce = "CONF" -> CONF(c, o)
    [] Enforce = "OUT" -> WholeOut(c, o)
    [] Enforce = "C04" -> C04(c, o)
    [] Enforce = "C14" -> C14(c, o)
    [] Enforce = "C07" -> C07(c, o)
    [] Enforce = "C07W" -> C07W(c, o)
    [] Enforce = "C12" -> C12(c, o)
    [] Enforce = "C15" -> C15(c, o)
    [] OTHER -> NoVerdict

Stateless(r, c) == [ dom |-> r.dom, fails |-> r.fails, m |-> MemoFor(c) ]
Judge(c, o) ==
  CASE Enforce = "C09" -> C09(c, o)
    [] Enforce = "C16" -> C16(c, o)
    [] Enforce = "C17" -> C17(c, o)
    [] Enforce = "C18" -> C18(c, o)
    [] OTHER -> Stateless(Judge0(c, o), c)

Emit1(c, m) == PrintT("VERDICT " \o ToJson([ prop |-> (IF Enforce = "C05S" THEN "C05" ELSE IF Enforce = "C10S" THEN "C10" ELSE IF Enforce = "C07W" THEN "C07" ELSE IF Enforce = "C03R" THEN "C03" ELSE IF Enforce = "C09R" THEN "C09" ELSE IF Enforce = "C13R" THEN "C13" ELSE Enforce), id |-> c.id, family |-> c.family, msg |-> m ]))

Init == l = 1 /\ cur = [ id |-> "", has_s |-> FALSE ] /\ nj = 0 /\ nbad = 0 /\ memo = [ sha |-> "", m |-> << >> ] /\ ph = << >> /\ hk = << >>
        /\ TLCSet(1, 0) /\ TLCSet(2, 0)

Step ==
  /\ l <= Len(Rec)
  /\ l' = l + 1
  /\ LET e == Rec[l] IN
     CASE e.ev = "case" -> cur' = e /\ ph' = << >> /\ hk' = << >> /\ UNCHANGED <<nj, nbad, memo>>
       [] e.ev \in {"bgd.scan", "bgd.density", "stage.entry", "stage.walk", "types.visit"} -> hk' = Append(hk, e) /\ UNCHANGED <<cur, nj, nbad, memo, ph>>
       [] e.ev = "sched" ->
            (* the recorded order of turns must be the exported interleaving (a subsequence of it when a
               call finished early and its remaining turns were skipped) *)
            LET ok == IsSubSeq(e.order, e.schedule) /\ (Len(e.order) = Len(e.schedule) => e.order = e.schedule)
            IN /\ (IF ok THEN TRUE ELSE PrintT("VERDICT " \o ToJson([ prop |-> Enforce, id |-> e.id, family |-> "sched", msg |-> "HOOK recorded interleaving is not the exported schedule" ])))
               /\ nbad' = nbad + (IF ok THEN 0 ELSE 1) /\ TLCSet(2, nbad')
               /\ UNCHANGED <<cur, nj, memo, ph, hk>>
       [] e.ev = "sys" ->
            (* History.tla: no action touches the environment; Format.tla: exactly one formatter process per call when asked *)
            LET ok == /\ e.writes = << >> /\ e.nets = << >> /\ e.reads = << >>
                      /\ (IF e.rustfmt THEN Len(e.execs) = e.n_calls /\ (\A i \in DOMAIN e.execs : e.execs[i] = "rustfmt") ELSE e.execs = << >>)
            IN /\ (IF ok THEN TRUE ELSE PrintT("VERDICT " \o ToJson([ prop |-> Enforce, id |-> e.id, family |-> "syscalls", msg |-> "the calling process touched its environment: spawned " \o ToJson(e.execs) \o ", opened for writing " \o ToJson(e.writes) \o ", read " \o ToJson(e.reads) \o ", network " \o ToJson(e.nets) ])))
               /\ nbad' = nbad + (IF ok THEN 0 ELSE 1) /\ TLCSet(2, nbad')
               /\ UNCHANGED <<cur, nj, memo, ph, hk>>
       [] e.ev = "envstate" ->
            (* History.tla: a call leaves nothing behind in the process - here: the application's panic hook *)
            /\ (IF e.ok \/ Enforce # "C18" THEN TRUE ELSE PrintT("VERDICT " \o ToJson([ prop |-> Enforce, id |-> e.id, family |-> "process-state", msg |-> e.what ])))
            /\ nbad' = nbad + (IF e.ok \/ Enforce # "C18" THEN 0 ELSE 1) /\ TLCSet(2, nbad')
            /\ UNCHANGED <<cur, nj, memo, ph, hk>>
       [] e.ev = "defaults" ->
            LET ok == e.opts = ST!DefaultOptions /\ e.validation_default_all
            IN /\ (IF ok \/ Enforce # "CONF" THEN TRUE ELSE PrintT("VERDICT " \o ToJson([ prop |-> Enforce, id |-> "defaults", family |-> "defaults", msg |-> "DRIFT WriteOptions::default() is " \o ToJson(e.opts) \o ", Generator.tla says " \o ToJson(ST!DefaultOptions) ])))
               /\ nbad' = nbad + (IF ok \/ Enforce # "CONF" THEN 0 ELSE 1) /\ TLCSet(2, nbad')
               /\ UNCHANGED <<cur, nj, memo, ph, hk>>
       [] e.ev = "phase" -> ph' = (IF e.name \in Range(PhaseSeq) THEN Append(ph, e.name) ELSE ph) /\ UNCHANGED <<cur, nj, nbad, memo, hk>>
       [] e.ev = "obs" ->
            LET r == Judge(cur, e) IN
            /\ \A m \in r.fails : Emit1(cur, m)
            /\ nj' = nj + (IF r.dom THEN 1 ELSE 0)
            /\ nbad' = nbad + Cardinality(r.fails)
            /\ TLCSet(1, nj') /\ TLCSet(2, nbad')
            /\ memo' = [ sha |-> cur.src_sha, m |-> r.m ]
            /\ UNCHANGED <<cur, ph, hk>>
       [] OTHER -> UNCHANGED <<cur, nj, nbad, memo, ph, hk>>

Spec == Init /\ [][Step]_vars

(* acceptance: every line of the trace was consumed *)
Accepted ==
  /\ PrintT("SUMMARY " \o ToJson([ lines |-> Len(Rec), depth |-> TLCGet("stats").diameter, judged |-> TLCGet(1), bad |-> TLCGet(2) ]))
  /\ TLCGet("stats").diameter = Len(Rec) + 1
=============================================================================
