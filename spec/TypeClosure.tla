--------------------------- MODULE TypeClosure ---------------------------
(* Operational model of structs.rs:add_types_recursive — the host-shareable type closure:  *)
(* for every module-scope variable, visit its type and recursively the element type of     *)
(* arrays and the member types of structs. `early` = a type already in the set is not      *)
(* expanded again. work = number of visits (one `types.visit` hook event each).             *)
EXTENDS Shader

Children(S, t) ==
  CASE t.k = "struct" -> [ i \in DOMAIN StructDef(S, t.name).members |-> StructDef(S, t.name).members[i].ty ]
    [] t.k \in {"array", "rtarray"} -> << t.e >>
    [] OTHER -> << >>

(* acc = [seen, work] *)
RECURSIVE Visit(_, _, _, _), VisitAll(_, _, _, _)
Visit(S, t, acc, early) ==
  IF early /\ t \in acc.seen THEN [ acc EXCEPT !.work = @ + 1 ]
  ELSE VisitAll(S, Children(S, t), [ seen |-> acc.seen \cup {t}, work |-> acc.work + 1 ], early)
VisitAll(S, ts, acc, early) ==
  IF ts = << >> THEN acc ELSE VisitAll(S, Tail(ts), Visit(S, Head(ts), acc, early), early)

GlobalTypes(S) == [ i \in DOMAIN S.globals |-> S.globals[i].ty ]
RunClosure(S, early) == VisitAll(S, GlobalTypes(S), [ seen |-> {}, work |-> 0 ], early)

StructsIn(seen) == { t.name : t \in { u \in seen : u.k = "struct" } }
ClosureIsHostReach(S, early) == StructsIn(RunClosure(S, early).seen) = HostReach(S)

(* distinct type terms reachable from the globals, and the number of parent->child edges among them *)
RECURSIVE TermClosure(_, _, _)
TermClosure(S, frontier, seen) ==
  IF frontier = {} THEN seen
  ELSE LET next == UNION { Range(Children(S, t)) : t \in frontier } \ seen IN TermClosure(S, next, seen \cup next)
Terms(S) == LET roots == Range(GlobalTypes(S)) IN TermClosure(S, roots, roots)
SumLen(T, S) == LET RECURSIVE F(_) F(X) == IF X = {} THEN 0 ELSE LET x == CHOOSE y \in X : TRUE IN Len(Children(S, x)) + F(X \ {x}) IN F(T)
(* C20, tight bound: every distinct type is expanded once; each expansion visits its children *)
ClosureBound(S) == Len(S.globals) + SumLen(Terms(S), S)
=============================================================================
