---------------------------- MODULE WgpuRules ----------------------------
(* Transcription of wgpu-core 24.0.5 (device/resource.rs create_bind_group_layout;           *)
(* validation.rs Resource::check_binding_use and the visibility test of check_stage) for a  *)
(* device with every feature enabled. The real library is run on the same cases as the       *)
(* second oracle; a disagreement between the two is reported as such, not as a verdict.      *)
EXTENDS Bindings

(* entry rules of create_bind_group_layout: "" = accepted, else the error *)
BglEntryError(e) ==
  CASE e.k = "texture" /\ e.multi /\ e.sample = "float_filterable" -> "SampleTypeFloatFilterableBindingMultisampled"
    [] e.k = "texture" /\ e.multi /\ e.dim # "D2" -> "Non2DMultisampled"
    [] e.k = "storage_texture" /\ e.dim \in {"Cube", "CubeArray"} -> "StorageTextureCube"
    [] OTHER -> ""

(* the shader-side resource of global g against layout entry type e: "" = compatible *)
SampledKindOf(sample) == CASE sample \in {"float_filterable", "float"} -> "f32" [] sample = "sint" -> "i32" [] sample = "uint" -> "u32" [] OTHER -> "depth"
BindingUseError(g, e) ==
  LET t == g.ty IN
  CASE t.k = "sampler" ->
         IF e.k # "sampler" THEN "WrongType" ELSE IF (e.ty = "Comparison") # t.cmp THEN "WrongSamplerComparison" ELSE ""
    [] t.k = "tex" ->
         IF e.k \notin {"texture", "storage_texture"} THEN "WrongTextureViewDimension"
         ELSE IF e.dim # (IF Has(t, "multi") /\ t.multi THEN "D2" ELSE DimName(t.dim)) THEN "WrongTextureViewDimension"
         ELSE IF t.class = "sampled" THEN
                (IF e.k = "texture" /\ e.sample # "depth" /\ SampledKindOf(e.sample) = t.kind /\ e.multi = t.multi THEN "" ELSE "WrongTextureClass")
         ELSE IF t.class = "depth" THEN
                (IF e.k = "texture" /\ e.sample = "depth" /\ e.multi = t.multi THEN "" ELSE "WrongTextureClass")
         ELSE (IF e.k = "storage_texture" /\ e.format = FormatName[t.format] /\ e.access = AccessName(t.access) THEN "" ELSE "WrongTextureClass")
    [] OTHER ->
         IF e.k # "buffer" THEN "WrongType"
         ELSE IF g.space = "uniform" THEN (IF e.bty = "uniform" THEN "" ELSE "WrongAddressSpace")
         ELSE IF e.bty # "storage" THEN "WrongAddressSpace"
         ELSE IF e.ro = (g.space = "storage_r") THEN "" ELSE "WrongAddressSpace"
=============================================================================
