--------------------------- MODULE BGD_Symbolic ---------------------------
(* The scan/density algorithm of BindGroupData.tla over SYMBOLIC integers (Apalache): the   *)
(* declaration sequence has at most 6 elements but its group and binding numbers are         *)
(* arbitrary integers, so the contract is checked for every u32 value, not only the small    *)
(* ones TLC enumerates. Checked as a bounded run (length 8 covers every complete run).       *)
EXTENDS Integers, Sequences, FiniteSets, Apalache

VARIABLES
  \* @type: Seq(<<Int, Int>>);
  D,
  \* @type: Int;
  i,
  \* @type: Set(<<Int, Int>>);
  seen,
  \* @type: Str;
  res,
  \* @type: Int;
  dupb

Init ==
  /\ D = Gen(6)
  /\ \A k \in DOMAIN D : D[k][1] >= 0 /\ D[k][2] >= 0
  /\ i = 1 /\ seen = {} /\ res = "pending" /\ dupb = -1

Scan ==
  /\ res = "pending" /\ i <= Len(D)
  /\ IF D[i] \in seen
     THEN res' = "dup" /\ dupb' = D[i][2] /\ UNCHANGED <<i, seen>>
     ELSE seen' = seen \union {D[i]} /\ i' = i + 1 /\ UNCHANGED <<res, dupb>>
  /\ UNCHANGED D

Groups == { p[1] : p \in seen }
Density ==
  /\ res = "pending" /\ i > Len(D)
  /\ res' = IF \A g \in Groups : g < Cardinality(Groups) THEN "ok" ELSE "nonconsecutive"
  /\ UNCHANGED <<D, i, seen, dupb>>

Stutter == res # "pending" /\ UNCHANGED <<D, i, seen, res, dupb>>
Next == Scan \/ Density \/ Stutter

\* declarative contract
AllGroups == { D[k][1] : k \in DOMAIN D }
HasDup == \E a, b \in DOMAIN D : a < b /\ D[a] = D[b]
Dense == \A g \in AllGroups : g < Cardinality(AllGroups)
Contract ==
  res # "pending" =>
    /\ (res = "ok") = (Dense /\ ~HasDup)
    /\ HasDup => (res = "dup" /\ \E a, b \in DOMAIN D : a < b /\ D[a] = D[b] /\ D[b][2] = dupb)
    /\ (~HasDup /\ ~Dense) => res = "nonconsecutive"
=============================================================================
