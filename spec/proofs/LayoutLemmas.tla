--------------------------- MODULE LayoutLemmas ---------------------------
(* Unbounded facts about the rounding operator of Layout.tla, proved with TLAPS (SMT back end). *)
(* The bounded TLC runs of MC_Layout check the layout functions on small type universes; these  *)
(* lemmas are what makes member offsets sound for every size: RoundUp(k, n) is the least        *)
(* multiple of k that is not below n, for each alignment WGSL can produce (1, 2, 4, 8, 16, 32). *)
EXTENDS Integers, TLAPS

RoundUp(k, n) == ((n + k - 1) \div k) * k
Aligns == {1, 2, 4, 8, 16, 32}

LEMMA RoundUpBounds ==
  \A k \in Aligns, n \in Nat : RoundUp(k, n) >= n /\ RoundUp(k, n) < n + k
  BY DEF RoundUp, Aligns

LEMMA RoundUpMultiple ==
  \A k \in Aligns, n \in Nat : RoundUp(k, n) % k = 0
  BY DEF RoundUp, Aligns

LEMMA RoundUpLeast ==
  \A k \in Aligns, n \in Nat, m \in Nat : (m >= n /\ m % k = 0) => m >= RoundUp(k, n)
<1> SUFFICES ASSUME NEW k \in Aligns, NEW n \in Nat, NEW m \in Nat, m >= n, m % k = 0 PROVE m >= RoundUp(k, n)
    OBVIOUS
<1>1 CASE k = 1 BY <1>1 DEF RoundUp
<1>2 CASE k = 2 BY <1>2 DEF RoundUp
<1>3 CASE k = 4 BY <1>3 DEF RoundUp
<1>4 CASE k = 8 BY <1>4 DEF RoundUp
<1>5 CASE k = 16 BY <1>5 DEF RoundUp
<1>6 CASE k = 32 BY <1>6 DEF RoundUp
<1> QED BY <1>1, <1>2, <1>3, <1>4, <1>5, <1>6 DEF Aligns

LEMMA RoundUpIdempotent ==
  \A k \in Aligns, n \in Nat : RoundUp(k, RoundUp(k, n)) = RoundUp(k, n)
<1> SUFFICES ASSUME NEW k \in Aligns, NEW n \in Nat PROVE RoundUp(k, RoundUp(k, n)) = RoundUp(k, n)
    OBVIOUS
<1>1 CASE k = 1 BY <1>1 DEF RoundUp
<1>2 CASE k = 2 BY <1>2 DEF RoundUp
<1>3 CASE k = 4 BY <1>3 DEF RoundUp
<1>4 CASE k = 8 BY <1>4 DEF RoundUp
<1>5 CASE k = 16 BY <1>5 DEF RoundUp
<1>6 CASE k = 32 BY <1>6 DEF RoundUp
<1> QED BY <1>1, <1>2, <1>3, <1>4, <1>5, <1>6 DEF Aligns

(* a member placed at RoundUp(align, prevEnd) never overlaps the previous member and wastes less than one alignment unit *)
LEMMA NoOverlap ==
  \A k \in Aligns, off \in Nat, size \in Nat :
     LET next == RoundUp(k, off + size) IN next >= off + size /\ next - (off + size) < k
  BY DEF RoundUp, Aligns

(* coarser alignments refine finer ones: an offset aligned to 16 is aligned to 4, which is why a struct's alignment   *)
(* (the maximum of its members') makes every member offset inside an array element aligned as well                  *)
LEMMA AlignDivides ==
  \A n \in Nat : (n % 16 = 0 => n % 8 = 0) /\ (n % 8 = 0 => n % 4 = 0) /\ (n % 4 = 0 => n % 2 = 0) /\ (n % 32 = 0 => n % 16 = 0)
  OBVIOUS
=============================================================================
